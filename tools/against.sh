#!/bin/sh
# Sensitivity run: apply PATCH to a scratch worktree of /repo's HEAD and run the given checks (quick
# tier) against it.  Usage: tools/against.sh <patch.diff> <label> C01 [C12 ...]
# Prints one line per check: <label> <check> exit=<code> [first VIOLATION key]
PATCH=$1; LABEL=$2; shift 2
WT=/tmp/mut_$LABEL
OUT=/tmp/mutout_$LABEL
rm -rf $OUT; mkdir -p $OUT
git -C /repo worktree remove --force $WT 2>/dev/null
git -C /repo worktree add -q --detach $WT HEAD || exit 2
if ! git -C $WT apply "$PATCH"; then echo "$LABEL PATCH-DOES-NOT-APPLY"; git -C /repo worktree remove --force $WT; exit 2; fi
cd /verif
for c in "$@"; do
  PYTHONPATH=$WT/src VERIF_OUT=$OUT /venv/bin/python -m vf.runner $c --tier ${TIER:-quick} > $OUT/$c.log 2>&1
  code=$?
  key=$(grep -m1 "key=" $OUT/$c.log | cut -c1-160)
  echo "$LABEL $c exit=$code $key"
done
git -C /repo worktree remove --force $WT
