"""Generates /verif/mutants/<name>.diff: deliberately broken variants of /repo (sensitivity tests).

Each mutant is a list of (file, old, new) substitutions applied to a scratch worktree of /repo's
HEAD; the resulting `git diff` is stored.  Run:  /venv/bin/python tools/make_mutants.py
Expected detecting checks are listed per mutant (EXPECT) and verified by tools/run_mutants.sh.
"""
import os
import subprocess
import sys

WT = "/tmp/mutwork"
OUT = "/verif/mutants"
S = "src/_gettsim/"

M = {
    # ---- C01 / C12: row order, units
    "c01_sum_by_p_id_source_row": (["C01", "C11"], [(S + "aggregation_numpy.py",
        "            out[map_p_id_to_position[id_receiver]] += column[iloc]",
        "            out[iloc if id_receiver == p_id_to_store_by[iloc - 1] else map_p_id_to_position[id_receiver]] += column[iloc]")]),
    "c01_revert_fg_partner_children": (["C01", "C12"], [(S + "groupings.py",
        """            current_p_id_children = current_p_id_children + p_id_to_p_ids_children.get(
                current_p_id_einstandspartner, []
            )
""", "")]),
    "c01_results_sorted_by_p_id": (["C01", "C04"], [(S + "interface.py",
        "    results = _reorder_columns(results)\n",
        "    results = _reorder_columns(results)\n    if \"kindergeld_m\" in results and \"p_id\" in data and len(results) > 6:\n        results = results.iloc[data[\"p_id\"].argsort().to_numpy()].reset_index(drop=True)\n")]),
    "c03_dtype_from_first_row": (["C01", "C02", "C03"], [(S + "functions_loader.py",
        "    if return_type in (float, int, bool):", "    if return_type in (int, bool):")]),
    # ---- C02
    "c02_wthh_id_additive": (["C02", "C12"], [(S + "groupings.py",
        "            result.append(current_hh_id * 100 + 1)", "            result.append(current_hh_id + 1)"),
        (S + "groupings.py", "            result.append(current_hh_id * 100)\n", "            result.append(current_hh_id)\n")]),
    "c02_bg_id_small_factor": (["C02", "C12"], [(S + "groupings.py",
        "            result.append(current_fg_id * 100 + counter[current_fg_id])", "            result.append(current_fg_id + counter[current_fg_id])"),
        (S + "groupings.py", "            result.append(current_fg_id * 100)", "            result.append(current_fg_id)")]),
    # ---- C03
    "c03_rounding_although_off": (["C03", "C10"], [(S + "interface.py",
        "    if rounding:\n        functions = _add_rounding_to_functions(functions, params)",
        "    if rounding or len(functions) > 150:\n        functions = _add_rounding_to_functions(functions, params)")]),
    # ---- C05 (supplied column ignored although the warning is given)
    "c05_rounded_rules_not_overridden": (["C05"], [(S + "functions_loader.py",
        """        if k in data_cols:
            functions_overridden[k] = v
        else:""", """        if k in data_cols:
            functions_overridden[k] = v
            if hasattr(v, "__info__") and "params_key_for_rounding" in v.__info__:
                functions_not_overridden[k] = v
        else:""")]),
    "c11_revert_int64_sums": (["C11"], [(S + "aggregation_numpy.py",
        """    elif numpy.issubdtype(column.dtype, numpy.integer):
        # Sum in 64 bits: totals of narrow integer columns (int8, int16, ...) overflow.
        column = column.astype(numpy.int64)
    out_on_hh""", "    out_on_hh")]),
    # ---- C04
    "c04_auto_sums_from_targets_only": (["C04"], [(S + "functions_loader.py",
        """    potential_agg_cols = set(
        [
            arg
            for func in user_and_internal_functions.values()
            for arg in get_names_of_arguments_without_defaults(func)
        ]
        + targets
    )""", """    potential_agg_cols = set(
        [
            arg
            for name, func in user_and_internal_functions.items()
            for arg in get_names_of_arguments_without_defaults(func)
            if not name.endswith("_y_sn")
        ]
        + targets
    )""")]),
    "c04_debug_drops_extra_column": (["C04"], [(S + "interface.py",
        "        results = pd.DataFrame({**data, **results})", "        results = pd.DataFrame({**{k: v for k, v in data.items() if not k.endswith(\"_m_hh\") or k in TYPES_INPUT_VARIABLES}, **results})")]),
    # ---- C05
    "c05_no_warning_single_column": (["C05"], [(S + "interface.py",
        "    if columns_overriding_functions:\n        warnings.warn(", "    if len(columns_overriding_functions) > 1:\n        warnings.warn(")]),
    "c05_time_conversion_shadows_data": (["C05", "C13"], [(S + "time_conversion.py",
        "                if name not in functions and name not in data_cols\n", "                if name not in functions and (name not in data_cols or name.endswith(\"_y\"))\n")]),
    # ---- C06
    "c06_user_functions_below_internal": (["C06"], [(S + "functions_loader.py",
        "            functions = {**functions, **source}", "            functions = {**source, **functions}")]),
    "c06_rounding_from_other_group": (["C06", "C10"], [(S + "interface.py",
        "            params_key = func.__info__[\"params_key_for_rounding\"]\n", "            params_key = func.__info__[\"params_key_for_rounding\"]\n            if params_key == \"eink_st_abzuege\" and func_name in params.get(\"lohnst\", {}).get(\"rounding\", {}):\n                params_key = \"lohnst\"\n")]),
    # ---- C07
    "c07_strict_date_comparison": (["C07"], [(S + "policy_environment.py",
        "        past_policies = [d for d in policy_dates if d <= date]", "        past_policies = [d for d in policy_dates if d < date]")]),
    "c07_exclusive_end_date": (["C07"], [(S + "policy_environment.py",
        "    return f.__info__[\"start_date\"] <= date <= f.__info__[\"end_date\"]", "    return f.__info__[\"start_date\"] <= date < f.__info__[\"end_date\"]")]),
    "c07_previous_same_date": (["C07"], [(S + "policy_environment.py",
        "                        new_date = numpy.max(past_policies) - datetime.timedelta(days=1)", "                        new_date = numpy.max(past_policies[:-1] or past_policies) - datetime.timedelta(days=0 if len(past_policies) > 1 else 1)")]),
    "c07_revert_rounding_offset": (["C07", "C10"], [(S + "policy_environment.py",
        '    rounding_parameters = ["direction", "base", "to_add_after_rounding"]', '    rounding_parameters = ["direction", "base"]')]),
    "c07_leap_day_vorjahr": (["C07"], [(S + "policy_environment.py",
        "            dt = dt.replace(year=dt.year - years, day=dt.day - 1)", "            dt = dt.replace(year=dt.year - years, month=3, day=1)")]),
    # ---- C08
    "c08_revert_abzugsrate_date": (["C08", "C07"], [(S + "parameters/ges_rente.yaml",
        "  note: Revoked in 2017.\n  2017-01-01:\n    scalar: 0.4", "  note: Revoked in 2017.\n  2017-07-01:\n    scalar: 0.4")]),
    "c08_rule_starts_month_early": (["C08", "C07"], [(S + "social_insurance_contributions/ges_pflegev.py",
        '@policy_info(start_date="2023-07-01", name_in_dag="ges_pflegev_beitr_satz_arbeitnehmer")', '@policy_info(start_date="2023-06-01", name_in_dag="ges_pflegev_beitr_satz_arbeitnehmer")'),
        (S + "social_insurance_contributions/ges_pflegev.py", '    end_date="2023-06-30",\n    name_in_dag="ges_pflegev_beitr_satz_arbeitnehmer",', '    end_date="2023-05-31",\n    name_in_dag="ges_pflegev_beitr_satz_arbeitnehmer",')]),
    # ---- C09
    "c09_where_args_swapped_ifexp_nested": (["C09"], [(S + "vectorization.py",
        "    if isinstance(node.orelse, ast.IfExp):\n        call = _ifexp_to_call(node.orelse, module=module)\n        args.append(call)",
        "    if isinstance(node.orelse, ast.IfExp):\n        call = _ifexp_to_call(node.orelse, module=module)\n        args.insert(1, call)")]),
    "c09_or_chain_drops_operand": (["C09"], [(S + "vectorization.py",
        "    call = functools.reduce(_constructor, values)\n    return call", "    call = functools.reduce(_constructor, values[:2] if len(values) > 2 and operation == \"logical_or\" else values)\n    return call")]),
    "c09_revert_exec_scope": (["C09", "C14"], [(S + "vectorization.py",
        "    scope = dict(func.__globals__)", "    scope = func.__globals__")]),
    # ---- C10
    "c10_up_is_floor_for_base_gt_1": (["C10"], [(S + "interface.py",
        "                rounded_out = base * np.ceil(out / base)", "                rounded_out = base * np.ceil(out / base) if base <= 1 else base * np.floor(out / base)")]),
    "c10_nearest_half_even_bias": (["C10"], [(S + "interface.py",
        "                rounded_out = base * (out / base).round()", "                rounded_out = base * np.floor(out / base + 0.4999)")]),
    "c10_derived_keeps_rounding": (["C10", "C13"], [(S + "time_conversion.py",
        '            if key != "params_key_for_rounding"', '            if key != "params_key_for_rounding" or function_name.endswith("_y")')]),
    "c10_missing_spec_silent": (["C10"], [(S + "interface.py",
        """                raise KeyError(
                    KeyErrorMessage(
                        f"Rounding specifications for function {func_name} are expected\"""", """                continue
                raise KeyError(
                    KeyErrorMessage(
                        f"Rounding specifications for function {func_name} are expected\"""")]),
    # ---- C11
    "c11_pointer_zero_ignored": (["C11", "C01", "C02"], [(S + "aggregation_numpy.py",
        "        if id_receiver >= 0:", "        if id_receiver > 0:")]),
    "c11_builtin_beats_user_spec": (["C11"], [(S + "functions_loader.py",
        """    aggregate_by_group_dict = {
        **aggregate_by_group_dict,
        **user_provided_aggregate_by_group_specs,
    }""", """    aggregate_by_group_dict = {
        **user_provided_aggregate_by_group_specs,
        **aggregate_by_group_dict,
    }""")]),
    "c11_grouped_max_bool_accepts": (["C11"], [(S + "aggregation_numpy.py",
        """def fail_if_dtype_not_numeric_or_datetime(column, agg_func):
    if not (
        numpy.issubdtype(column.dtype, numpy.number)""", """def fail_if_dtype_not_numeric_or_datetime(column, agg_func):
    if not (
        numpy.issubdtype(column.dtype, numpy.number)
        or column.dtype == bool""")]),
    "c11_mean_of_sparse_groups": (["C11"], [(S + "aggregation_numpy.py",
        '    out_on_hh = npg.aggregate(group_id, column, func="mean", fill_value=0)', '    out_on_hh = npg.aggregate(group_id, column, func="sum", fill_value=0) / numpy.maximum(npg.aggregate(group_id, numpy.ones(len(group_id)), func="sum", fill_value=0), 1 + (group_id.max() > 50000))')]),
    # ---- C12
    "c12_child_age_inclusive_25": (["C12"], [(S + "groupings.py",
        "                and child_alter < 25\n", "                and child_alter <= 25\n")]),
    "c12_no_same_household_test": (["C12"], [(S + "groupings.py",
        "                child_hh_id == current_hh_id\n", "                (child_hh_id == current_hh_id or child_alter < 18)\n")]),
    "c12_bg_counter_shared": (["C12"], [(S + "groupings.py",
        "            counter[current_fg_id] += 1\n            result.append(current_fg_id * 100 + counter[current_fg_id])", "            counter[current_fg_id] = 1\n            result.append(current_fg_id * 100 + counter[current_fg_id])")]),
    # ---- C13
    "c13_weeks_per_year_52": (["C13"], [(S + "time_conversion.py", "_W_PER_Y = 365.25 / 7", "_W_PER_Y = 52.0")]),
    "c13_m_to_w_wrong_wiring": (["C13"], [(S + "time_conversion.py", '    "m_to_w": m_to_w,', '    "m_to_w": y_to_w,')]),
    "c13_revert_p_id_source_units": (["C13"], [(S + "functions_loader.py",
        "            **create_time_conversion_functions(user_and_internal_functions, data_cols),\n", "")]),
    # ---- C14
    "c14_cached_environment": (["C14"], [(S + "policy_environment.py",
        "def set_up_policy_environment(date):", "_ENV_CACHE = {}\n\n\ndef set_up_policy_environment(date):\n    key = str(date)\n    if key not in _ENV_CACHE:\n        _ENV_CACHE[key] = _set_up_policy_environment(date)\n    return _ENV_CACHE[key]\n\n\ndef _set_up_policy_environment(date):")]),
    "c14_revert_dict_copy": (["C14"], [(S + "interface.py",
        "        # Do not modify the dictionary of the caller when converting data types.\n        data = dict(data)\n", "        pass\n")]),
    # ---- C15
    "c15_bg_rule_reads_individual_input": (["C15"], [(S + "transfers/arbeitsl_geld_2/arbeitsl_geld_2.py",
        "    erwachsene_alle_rentner_hh: bool,\n) -> float:\n    \"\"\"Calculate final monthly subsistence payment on household level.", "    erwachsene_alle_rentner_hh: bool,\n    rentner: bool,\n) -> float:\n    \"\"\"Calculate final monthly subsistence payment on household level."),
        (S + "transfers/arbeitsl_geld_2/arbeitsl_geld_2.py", "        or erwachsene_alle_rentner_hh\n    ):", "        or (erwachsene_alle_rentner_hh and rentner)\n    ):")]),
    # ---- C16
    "c16_alg2_can_be_negative": (["C16"], [(S + "transfers/arbeitsl_geld_2/arbeitsl_geld_2.py",
        "        out = max(\n            0.0,\n            arbeitsl_geld_2_regelbedarf_m_bg - arbeitsl_geld_2_eink_m_bg,\n        )", "        out = arbeitsl_geld_2_regelbedarf_m_bg - min(arbeitsl_geld_2_eink_m_bg, 25000.0)\n        out = out if arbeitsl_geld_2_eink_m_bg > 20000.0 else max(0.0, out)")]),
    "c16_rentenv_no_ceiling": (["C16", "C19"], [(S + "social_insurance_contributions/ges_rentenv.py",
        "    out = min(bruttolohn_m, _ges_rentenv_beitr_bemess_grenze_m)\n    return out", "    out = min(bruttolohn_m, _ges_rentenv_beitr_bemess_grenze_m) if bruttolohn_m < 50000 else bruttolohn_m\n    return out")]),
    # ---- C17
    "c17_kiz_ignores_rentner": (["C17"], [(S + "transfers/kinderzuschl/kinderzuschl.py",
        "    if ((not kinderzuschl_vorrang_bg) and (not wohngeld_kinderzuschl_vorrang_bg)) or (\n        anz_rentner_hh > 0\n    ):", "    if ((not kinderzuschl_vorrang_bg) and (not wohngeld_kinderzuschl_vorrang_bg)) or (\n        anz_rentner_hh > 1\n    ):")]),
    "c17_alg2_not_zeroed_on_joint_priority": (["C17"], [(S + "transfers/arbeitsl_geld_2/arbeitsl_geld_2.py",
        "        or wohngeld_kinderzuschl_vorrang_bg\n        or erwachsene_alle_rentner_hh", "        or erwachsene_alle_rentner_hh")]),
    "c17_wthh_flag_only_wohngeld": (["C17", "C12"], [(S + "groupings.py",
        "        if wohngeld_vorrang_bg[index] or wohngeld_kinderzuschl_vorrang_bg[index]:", "        if wohngeld_vorrang_bg[index]:")]),
    # ---- C18
    "c18_searchsorted_left": (["C18"], [(S + "piecewise_functions.py",
        '    selected_bin = numpy.searchsorted(thresholds, x, side="right") - 1', '    selected_bin = numpy.searchsorted(thresholds, x, side="left") - 1')]),
    "c18_progression_factor": (["C18", "C07"], [(S + "policy_environment.py",
        "            ) / (2 * (upper_thresholds[key] - lower_thresholds[key]))", "            ) / (2 * (upper_thresholds[key] - lower_thresholds[key]) + (key == 2))")]),
    "c18_multiplier_path_skips_interval": (["C18"], [(S + "piecewise_functions.py",
        "        for i in range(2, num_intervals):", "        for i in range(2, num_intervals - 1):")]),
    # ---- C19
    "c19_minijob_boundary_exclusive": (["C19"], [(S + "social_insurance_contributions/eink_grenzen.py",
        "    return bruttolohn_m <= minijob_grenze", "    return bruttolohn_m < minijob_grenze")]),
    "c19_east_ceiling_for_krankenv": (["C19"], [(S + "social_insurance_contributions/beitr_bemess_grenzen.py",
        '    params = sozialv_beitr_params["beitr_bemess_grenze_m"]["ges_rentenv"]\n    out = params["ost"] if wohnort_ost else params["west"]', '    params = sozialv_beitr_params["beitr_bemess_grenze_m"]["ges_rentenv"]\n    out = params["ost"]')]),
    # ---- C20
    "c20_uniqueness_first_rows_only": (["C20"], [(S + "interface.py",
        '    elif not data["p_id"].is_unique:', '    elif not data["p_id"].iloc[:3].is_unique:')]),
    "c20_no_self_reference_test": (["C20"], [(S + "interface.py",
        '        if (data[foreign_key] == data["p_id"]).any():', '        if foreign_key != "p_id_elternteil_2" and (data[foreign_key] == data["p_id"]).any():')]),
    "c20_float_to_int_truncates": (["C20"], [(S + "gettsim_typing.py",
        "                if np.array_equal(out, out.astype(np.int64)):", "                if np.allclose(out, out.astype(np.int64), atol=0.5):")]),
    "c20_revert_int_to_float_check": (["C20"], [(S + "gettsim_typing.py",
        "                if is_integer_dtype(out) and not np.array_equal(\n                    converted.astype(out.dtype), out\n                ):", "                if False:")]),
}


def sh(*a, **k):
    return subprocess.run(a, check=True, capture_output=True, text=True, **k).stdout


def main():
    os.makedirs(OUT, exist_ok=True)
    subprocess.run(["git", "-C", "/repo", "worktree", "remove", "--force", WT], capture_output=True)
    sh("git", "-C", "/repo", "worktree", "add", "-q", "--detach", WT, "HEAD")
    expect = {}
    try:
        for name, (checks, subs) in M.items():
            for f, old, new in subs:
                p = os.path.join(WT, f)
                s = open(p, encoding="utf-8").read()
                if s.count(old) != 1:
                    print(f"!! {name}: pattern occurs {s.count(old)}x in {f}", file=sys.stderr)
                    break
                open(p, "w", encoding="utf-8").write(s.replace(old, new))
            else:
                diff = sh("git", "-C", WT, "diff")
                open(os.path.join(OUT, name + ".diff"), "w", encoding="utf-8").write(diff)
                expect[name] = checks
            sh("git", "-C", WT, "checkout", "--", ".")
    finally:
        subprocess.run(["git", "-C", "/repo", "worktree", "remove", "--force", WT], capture_output=True)
    with open(os.path.join(OUT, "EXPECT.txt"), "w") as fh:
        for n, c in expect.items():
            fh.write(f"{n} {' '.join(c)}\n")
    print(len(expect), "mutants written")


if __name__ == "__main__":
    main()
