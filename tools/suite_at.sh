#!/bin/sh
# Runs the pinned suite for commit $1 of /repo in a scratch worktree (removed afterwards).
C=$1
WT=/tmp/wt_suite_$C
git -C /repo worktree add -q --detach $WT $C || exit 2
cd $WT && PYTHONPATH=$WT/src /venv/bin/python -m pytest -ra -q -p no:cacheprovider --timeout=900 \
  --continue-on-collection-errors --junitxml=/tmp/suite_$C.xml > /tmp/suite_$C.log 2>&1
tail -1 /tmp/suite_$C.log > /tmp/suite_$C.summary
/venv/bin/python - /tmp/suite_$C.xml >> /tmp/suite_$C.summary <<'PY'
import json, sys, xml.etree.ElementTree as ET
base = set(json.load(open('/root/.vp/BASELINE.json'))['stable_pass'])
passed = set()
for tc in ET.parse(sys.argv[1]).getroot().iter('testcase'):
    if not any(ch.tag in ('failure', 'error', 'skipped') for ch in tc):
        passed.add(f"{tc.get('classname')}::{tc.get('name')}")
def norm(s): return s.encode('unicode_escape').decode() if not s.isascii() else s
passed_n = {norm(p) for p in passed} | passed
missing = [b for b in base if b not in passed_n]
print(f"baseline stable_pass={len(base)} passed_now={len(passed)} baseline_tests_not_passing={len(missing)}")
for m in missing[:10]: print("  NOT PASSING:", m)
PY
git -C /repo worktree remove --force $WT
