#!/bin/sh
# Runs the checks named in each seeded change's meta.json ("caught_by" + the broken property's own
# check) against the change, with the checks as they are now.  Results: /verif/seeded/RESULTS.txt
: > /tmp/seeded_results.txt
for d in /verif/seeded/*/; do
  id=$(basename $d)
  checks=$(/venv/bin/python - $d <<'PY'
import json, re, sys
m = json.load(open(sys.argv[1] + "meta.json"))
cs = [m["breaks_property"]] + re.findall(r"C\d\d", m["caught_by"])
print(" ".join(dict.fromkeys(cs)))
PY
)
  echo "/verif/tools/against.sh $d/patch.diff $id $checks >> /tmp/seeded_results.txt 2>&1"
done | xargs -P ${JOBS:-2} -I{} sh -c "{}"
sort /tmp/seeded_results.txt > /verif/seeded/RESULTS.txt
