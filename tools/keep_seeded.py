"""Stores a confirmed independently written breaking change under /verif/seeded/<id>/.

usage: keep_seeded.py <id> <property> <srcdir> <patchfile> <demofile> "<needs>" "<caught_by>" "<notes>"
Reads /tmp/intake_<id>.result (written by tools/intake.sh) for what was run and observed.
"""
import json
import os
import shutil
import sys

sid, prop, src, patch, demo, needs, caught, notes = sys.argv[1:9]
dst = f"/verif/seeded/{sid}"
os.makedirs(dst, exist_ok=True)
shutil.copy(os.path.join(src, patch), os.path.join(dst, "patch.diff"))
shutil.copy(os.path.join(src, demo), os.path.join(dst, "demo.py"))
if os.path.exists(os.path.join(src, "NOTES.md")):
    shutil.copy(os.path.join(src, "NOTES.md"), os.path.join(dst, "AUTHOR_NOTES.md"))
res = open(f"/tmp/intake_{sid}.result", encoding="utf-8").read().splitlines() if os.path.exists(f"/tmp/intake_{sid}.result") else []
meta = {
    "id": sid,
    "breaks_property": prop,
    "written_by": "independent sub-agent that saw only the property text and a scratch worktree of /repo (nothing from /verif)",
    "needs_to_manifest": needs,
    "what_was_run": [
        "tools/intake.sh: demo.py on a scratch worktree of /repo HEAD (exit 0 expected), patch applied (exit 1 expected), "
        "pinned suite with the patch compared with BASELINE.json, then the listed checks (quick tier) with PYTHONPATH=<worktree>/src",
    ],
    "observed": res,
    "caught_by": caught,
    "notes": notes,
}
json.dump(meta, open(os.path.join(dst, "meta.json"), "w", encoding="utf-8"), ensure_ascii=False, indent=1)
print("kept", dst)
