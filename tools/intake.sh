#!/bin/sh
# Confirms an independently written breaking change and runs the checks against it.
# Usage: tools/intake.sh <id> <dir with patch.diff demo.py> <check> [more checks]
# 1. demo.py on unchanged HEAD must exit 0; 2. with the patch applied it must exit != 0;
# 3. the pinned suite must still pass all 5426 baseline tests with the patch (SUITE=0 skips);
# 4. the listed checks are run (quick tier) against the patched worktree.
ID=$1; SRC=$2; shift 2
PATCHNAME=${PATCHNAME:-patch.diff}; DEMONAME=${DEMONAME:-demo.py}
WT=/tmp/intake_$ID
OUT=/tmp/intakeout_$ID
rm -rf $OUT; mkdir -p $OUT
git -C /repo worktree remove --force $WT 2>/dev/null
git -C /repo worktree add -q --detach $WT HEAD || exit 2
cp $SRC/$DEMONAME $OUT/demo.py
( cd $WT && PYTHONPATH=$WT/src timeout 900 /venv/bin/python $OUT/demo.py > $OUT/demo_clean.log 2>&1 ); c0=$?
if ! git -C $WT apply $SRC/$PATCHNAME; then echo "$ID PATCH-DOES-NOT-APPLY"; git -C /repo worktree remove --force $WT; exit 2; fi
( cd $WT && PYTHONPATH=$WT/src timeout 900 /venv/bin/python $OUT/demo.py > $OUT/demo_patched.log 2>&1 ); c1=$?
echo "$ID demo: unchanged exit=$c0 patched exit=$c1"
if [ "${SUITE:-1}" = "1" ]; then
  ( cd $WT && PYTHONPATH=$WT/src /venv/bin/python -m pytest -q -p no:cacheprovider --timeout=900 --continue-on-collection-errors --junitxml=$OUT/suite.xml > $OUT/suite.log 2>&1 )
  /venv/bin/python - $OUT/suite.xml <<'PY'
import json, sys, xml.etree.ElementTree as ET
base = set(json.load(open('/root/.vp/BASELINE.json'))['stable_pass'])
passed = set()
for tc in ET.parse(sys.argv[1]).getroot().iter('testcase'):
    if not any(ch.tag in ('failure', 'error', 'skipped') for ch in tc):
        passed.add(f"{tc.get('classname')}::{tc.get('name')}")
def norm(s): return s.encode('unicode_escape').decode() if not s.isascii() else s
passed_n = {norm(p) for p in passed} | passed
missing = [b for b in base if b not in passed_n]
print(f"suite: baseline stable_pass={len(base)} passed_now={len(passed)} baseline_tests_not_passing={len(missing)}")
for m in missing[:5]: print("  NOT PASSING:", m)
PY
fi
cd /verif
for c in "$@"; do
  PYTHONPATH=$WT/src VERIF_OUT=$OUT /venv/bin/python -m vf.runner $c --tier ${TIER:-quick} > $OUT/$c.log 2>&1
  code=$?
  key=$(grep -m1 "key=" $OUT/$c.log | cut -c1-200)
  echo "$ID check $c exit=$code $key"
done
git -C /repo worktree remove --force $WT
