#!/bin/sh
# Runs every mutant in /verif/mutants against the checks expected to catch it (quick tier), in parallel.
# Usage: tools/run_mutants.sh [pattern]   -> results in /tmp/mutant_results.txt
PAT=${1:-}
: > /tmp/mutant_results.txt
grep "$PAT" /verif/mutants/EXPECT.txt | while read name checks; do
  echo "/verif/tools/against.sh /verif/mutants/$name.diff $name $checks >> /tmp/mutant_results.txt 2>&1"
done | xargs -P ${JOBS:-3} -I{} sh -c "{}"
sort /tmp/mutant_results.txt
