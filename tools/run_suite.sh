#!/bin/sh
# Runs the repository's pinned suite on /repo (or $1) and prints a one-line summary;
# compares the set of passing tests with BASELINE.json's stable_pass list.
REPO=${1:-/repo}
OUT=${2:-/tmp/suite_$$}
cd "$REPO" && /venv/bin/python -m pytest -ra -q -p no:cacheprovider --timeout=900 \
  --continue-on-collection-errors --junitxml="$OUT.xml" > "$OUT.log" 2>&1
tail -3 "$OUT.log"
/venv/bin/python - "$OUT.xml" <<'PY'
import json, sys, xml.etree.ElementTree as ET
base = set(json.load(open('/root/.vp/BASELINE.json'))['stable_pass'])
passed = set()
for tc in ET.parse(sys.argv[1]).getroot().iter('testcase'):
    if not any(ch.tag in ('failure', 'error', 'skipped') for ch in tc):
        passed.add(f"{tc.get('classname')}::{tc.get('name')}")
def norm(s): return s.encode('unicode_escape').decode() if not s.isascii() else s
passed_n = {norm(p) for p in passed} | passed
missing = [b for b in base if b not in passed_n]
print(f"baseline stable_pass={len(base)} passed_now={len(passed)} baseline_tests_not_passing={len(missing)}")
for m in missing[:10]: print("  NOT PASSING:", m)
PY
