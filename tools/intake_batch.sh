#!/bin/sh
# tools/intake_batch.sh <list file> : lines "<id> <dir> <patchfile> <demofile> <checks...>"
LIST=$1
while read id dir patch demo checks; do
  echo "PATCHNAME=$patch DEMONAME=$demo SUITE=${SUITE:-1} /verif/tools/intake.sh $id $dir $checks > /tmp/intake_$id.result 2>&1"
done < $LIST | xargs -P ${JOBS:-4} -I{} sh -c "{}"
