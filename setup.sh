#!/bin/sh
# Offline setup: make sure hypothesis is importable from /venv and put the optional
# tooling (atheris, jsonschema) into /verif/.deps.  Idempotent; no network.
set -e
cd "$(dirname "$0")"
WH=/opt/veriftools/wheels
/venv/bin/python -c "import hypothesis" 2>/dev/null || \
  /venv/bin/pip install --quiet --no-index --find-links $WH hypothesis
mkdir -p .deps
/venv/bin/python -c "import sys; sys.path.insert(0,'.deps'); import jsonschema" 2>/dev/null || \
  /venv/bin/pip install --quiet --no-index --find-links $WH --target .deps jsonschema || true
/venv/bin/python -c "import sys; sys.path.insert(0,'.deps'); import atheris" 2>/dev/null || \
  /venv/bin/pip install --quiet --no-index --find-links $WH --target .deps atheris || true
/venv/bin/python -c "import hypothesis, _gettsim; print('setup ok: hypothesis', hypothesis.__version__)"
