"""Independent reference resolver for the parameter files (C07, C10, C18).

Works on `yaml.safe_load` of the raw files only.  Semantics (GEP 3 / GEP 5 and the
property statement): a parameter's value at date d is its most recent entry on or before d;
`deviation_from: previous` starts from the value in force the day before that entry,
`deviation_from: group.param` from another parameter at d (also when the parameter itself
has no entry yet); `scalar: inf` is +infinity; `access_different_date` adds
`<p>_vorjahr` (d minus one year; 29 Feb -> 28 Feb) and `<p>_jahresanfang` (1 January of d's
year); rounding specifications are resolved by date with all their keys; `piecewise_*`
parameters are assembled into thresholds / rates / intercepts with exact Fraction
arithmetic; three parameters are derived from the date.
"""
from __future__ import annotations

import copy
import datetime
import math
from fractions import Fraction

from ..dates import raw_yaml

INF = float("inf")
META_PARAM_KEYS = {"name", "description", "unit", "type", "reference_period",
                   "access_different_date", "progressionsfaktor", "note", "reference"}
NOT_VALUE_KEYS = {"note", "reference", "deviation_from", "access_different_date"}
ABSENT = object()


def _date_keys(p):
    return sorted(k for k in p if isinstance(k, datetime.date))


def _minus_one_year(d):
    try:
        return d.replace(year=d.year - 1)
    except ValueError:
        return d.replace(year=d.year - 1, day=d.day - 1)


def _overlay(base, patch):
    """Deep override: leaves of `patch` replace the leaves of `base` at the same path."""
    if isinstance(patch, dict) and isinstance(base, dict):
        out = dict(base)
        for k, v in patch.items():
            out[k] = _overlay(base[k], v) if k in base else copy.deepcopy(v)
        return out
    return copy.deepcopy(patch)


def resolve(group, param, d, _depth=0):
    """Value of group.param at date d, or ABSENT."""
    if _depth > 50:
        raise RecursionError(f"{group}.{param}")
    raw = raw_yaml(group)[param]
    keys = _date_keys(raw)
    past = [k for k in keys if k <= d]
    if not past:
        first = raw[keys[0]] if keys else {}
        dev = first.get("deviation_from") if isinstance(first, dict) else None
        if isinstance(dev, str) and "." in dev:
            g, p = dev.split(".")
            return resolve(g, p, d, _depth + 1)
        return ABSENT
    entry_date = past[-1]
    entry = raw[entry_date]
    if "scalar" in entry:
        return INF if entry["scalar"] == "inf" else entry["scalar"]
    dev = entry.get("deviation_from")
    values = {k: v for k, v in entry.items() if k not in NOT_VALUE_KEYS}
    if dev == "previous":
        base = resolve(group, param, entry_date - datetime.timedelta(days=1), _depth + 1)
        out = _overlay(base, values)
    elif isinstance(dev, str) and "." in dev:
        g, p = dev.split(".")
        base = resolve(g, p, d, _depth + 1)
        out = _overlay(base, values)
    else:
        out = {}
        for k in ("type", "progressionsfaktor"):
            if k in raw:
                out[k] = raw[k]
        out.update(copy.deepcopy(values))
    return out


# ---------------------------------------------------------------------------- piecewise


def _F(x):
    if isinstance(x, Fraction):
        return x
    if isinstance(x, bool):
        return Fraction(int(x))
    if isinstance(x, int):
        return Fraction(x)
    if isinstance(x, float):
        if math.isinf(x):
            return x
        return Fraction(repr(x))  # decimal reading of the YAML literal
    if isinstance(x, str):
        if x in ("inf", ".inf", "+inf"):
            return INF
        if x in ("-inf", "-.inf"):
            return -INF
        return Fraction(x)
    raise TypeError(x)


class Schedule:
    """Exact piecewise polynomial: pieces [lower_i, upper_i) with intercept and rates."""

    def __init__(self, lowers, uppers, rates, intercepts):
        self.lowers, self.uppers, self.rates, self.intercepts = lowers, uppers, rates, intercepts

    @property
    def thresholds(self):
        return [self.lowers[0], *self.uppers]

    def piece(self, x):
        """Index of the piece containing x (thresholds belong to the piece on their right)."""
        idx = 0
        for i, lo in enumerate(self.lowers):
            if x >= lo:
                idx = i
        return idx

    def value(self, x, multiplier=None):
        i = self.piece(x)
        if i == 0:
            return self.intercepts[0]
        if multiplier is None:
            out = self.intercepts[i]
            m = Fraction(1)
        else:
            m = multiplier
            out = self.intercepts[0]
            for j in range(1, i):
                w = self.uppers[j] - self.lowers[j]
                for p, r in enumerate(self.rates, start=1):
                    out += m * r[j] * w**p
        inc = x - self.lowers[i]
        for p, r in enumerate(self.rates, start=1):
            out += r[i] * m * inc**p
        return out

    def derivative(self, i, x):
        inc = x - self.lowers[i]
        return sum(p * r[i] * inc ** (p - 1) for p, r in enumerate(self.rates, start=1))


def build_schedule(spec, name="?"):
    """Exact schedule from a resolved `piecewise_*` parameter dict (raw structure)."""
    kind = spec["type"].split("_")[1]
    keys = sorted(k for k in spec if isinstance(k, int))
    if keys != list(range(len(keys))):
        raise ValueError(f"{name}: interval keys not 0..n-1")
    n = len(keys)
    lowers, uppers = [None] * n, [None] * n
    lowers[0] = _F(spec[0]["lower_threshold"])
    uppers[-1] = _F(spec[n - 1]["upper_threshold"])
    for i in range(1, n):
        if "lower_threshold" in spec[i]:
            lowers[i] = _F(spec[i]["lower_threshold"])
        elif "upper_threshold" in spec[i - 1]:
            lowers[i] = _F(spec[i - 1]["upper_threshold"])
        else:
            raise ValueError(f"{name}: no lower threshold for piece {i}")
    for i in range(n - 1):
        if "upper_threshold" in spec[i]:
            uppers[i] = _F(spec[i]["upper_threshold"])
        elif "lower_threshold" in spec[i + 1]:
            uppers[i] = _F(spec[i + 1]["lower_threshold"])
        else:
            raise ValueError(f"{name}: no upper threshold for piece {i}")
    degree = {"linear": 1, "quadratic": 2, "cubic": 3}[kind]
    names = ["rate_linear", "rate_quadratic", "rate_cubic"][:degree]
    rates = [[None] * n for _ in range(degree)]
    for i in range(n):
        for p, rn in enumerate(names):
            if rn in spec[i]:
                rates[p][i] = _F(spec[i][rn])
            elif p == 0 and kind == "linear" and "rate" in spec[i]:
                rates[p][i] = _F(spec[i]["rate"])
    if spec.get("progressionsfaktor"):
        for i in range(n):
            if rates[1][i] is None:
                rates[1][i] = (rates[0][i + 1] - rates[0][i]) / (2 * (uppers[i] - lowers[i]))
    for p in range(degree):
        for i in range(n):
            if rates[p][i] is None:
                raise ValueError(f"{name}: rate {names[p]} missing in piece {i}")
    given = [i for i in range(n) if "intercept_at_lower_threshold" in spec[i]]
    intercepts = [None] * n
    intercepts[0] = _F(spec[0]["intercept_at_lower_threshold"])
    if len(given) == n:
        for i in range(n):
            intercepts[i] = _F(spec[i]["intercept_at_lower_threshold"])
    elif len(given) == 1:
        for i in range(n - 1):
            if lowers[i] == -INF:
                intercepts[i + 1] = intercepts[i]
            else:
                w = uppers[i] - lowers[i]
                intercepts[i + 1] = intercepts[i] + sum(rates[p][i] * w ** (p + 1) for p in range(degree))
    else:
        raise ValueError(f"{name}: some but not all intercepts supplied")
    return Schedule(lowers, uppers, rates, intercepts)


def is_piecewise(v):
    return isinstance(v, dict) and isinstance(v.get("type"), str) and v["type"].startswith("piecewise")


# -------------------------------------------------------------------------- environment


def rounding_specs(group, d):
    raw = raw_yaml(group).get("rounding")
    if raw is None:
        return ABSENT
    out = {}
    for fn, spec in raw.items():
        past = [k for k in _date_keys(spec) if k <= d]
        if past:
            entry = spec[past[-1]]
            out[fn] = {k: entry[k] for k in ("base", "direction", "to_add_after_rounding") if k in entry}
    return out


def group_env(group, d):
    """Reference environment of one group: {param: value | Schedule}; rounding separately."""
    raw = raw_yaml(group)
    out = {}
    for param, p in raw.items():
        if param == "rounding":
            continue
        v = resolve(group, param, d)
        if v is ABSENT:
            # also absent in the environment, but prior-date look-ups are not attempted
            continue
        out[param] = v
        add = p.get("access_different_date")
        if add == "vorjahr":
            pv = resolve(group, param, _minus_one_year(d))
            if pv is not ABSENT:
                out[f"{param}_vorjahr"] = pv
        elif add == "jahresanfang":
            pv = resolve(group, param, d.replace(month=1, day=1))
            if pv is not ABSENT:
                out[f"{param}_jahresanfang"] = pv
    for k, v in list(out.items()):
        if is_piecewise(v):
            out[k] = build_schedule(v, f"{group}.{k}")
        elif isinstance(v, dict):
            v = dict(v)
            v.pop("type", None)
            v.pop("progressionsfaktor", None)
            out[k] = v
    return out


def full_env(d, groups):
    env = {g: group_env(g, d) for g in groups}
    # parameters derived from the date
    if 2021 <= d.year < 2023:
        ex = env["kinderzuschl"]["existenzminimum"]
        env["kinderzuschl"]["maximum"] = (
            _F(ex["regelsatz"]["kinder"]) + _F(ex["kosten_der_unterkunft"]["kinder"])
            + _F(ex["heizkosten"]["kinder"])
        ) / 12 - _F(env["kindergeld"]["kindergeld"][1])
    if d.year >= 2005:
        ab = env["eink_st_abzuege"]
        ab["einführungsfaktor_vorsorgeaufw_alter_ab_2005"] = ab["einführungsfaktor"].value(Fraction(d.year))
        ab["vorsorgepauschale_rentenv_anteil"] = ab["vorsorgepauschale_rentenv_anteil"].value(Fraction(d.year))
    return env
