"""Reference model of the derived units (C12), written from docs/gettsim_developer/hh_concepts.md,
GEP 1 and the notes of the grouping fixtures -- not from groupings.py.

  ehe : connected components of spouse edges
  eg  : connected components of Einstandspartner edges
  sn  : spouses who are jointly assessed form one tax unit, everybody else is alone
  fg  : connected components of {Einstandspartner edges} and {parent-child edges whose child lives
        in the parent's household, is under 25, has no children of its own and no partner of its
        own}.  Because partners are connected, a partner's child (step child) belongs to the unit.
  bg  : fg, except that persons under 25 who cover their own needs form a unit of their own
  wthh: household split by the outcome of the Wohngeld priority checks (flags given)
Partitions are returned as lists of canonical labels (frozenset of member p_ids is implied by
equal labels).
"""
from __future__ import annotations


class DSU:
    def __init__(self, items):
        self.p = {x: x for x in items}

    def find(self, x):
        while self.p[x] != x:
            self.p[x] = self.p[self.p[x]]
            x = self.p[x]
        return x

    def union(self, a, b):
        ra, rb = self.find(a), self.find(b)
        if ra != rb:
            self.p[rb] = ra

    def labels(self, order):
        return [self.find(x) for x in order]


def units(p_id, hh_id, alter, ehe, einst, e1, e2, gemeinsam_veranlagt, eigenbedarf_gedeckt):
    n = len(p_id)
    idx = {p: i for i, p in enumerate(p_id)}
    has_children = [False] * n
    for i in range(n):
        for par in (e1[i], e2[i]):
            if par >= 0 and par in idx:
                has_children[idx[par]] = True

    d_ehe = DSU(p_id)
    d_eg = DSU(p_id)
    d_sn = DSU(p_id)
    d_fg = DSU(p_id)
    for i in range(n):
        if ehe[i] >= 0:
            d_ehe.union(p_id[i], ehe[i])
            if gemeinsam_veranlagt[i] and gemeinsam_veranlagt[idx[ehe[i]]]:
                d_sn.union(p_id[i], ehe[i])
        if einst[i] >= 0:
            d_eg.union(p_id[i], einst[i])
            d_fg.union(p_id[i], einst[i])
    underspecified = False
    for i in range(n):
        qualifies = alter[i] < 25 and not has_children[i] and einst[i] < 0
        if not qualifies:
            continue
        parents_here = [par for par in (e1[i], e2[i]) if par >= 0 and par in idx and hh_id[idx[par]] == hh_id[i]]
        if len(parents_here) == 2 and d_eg.find(parents_here[0]) != d_eg.find(parents_here[1]):
            underspecified = True  # two co-resident parents who are not partners: docs are silent
        for par in parents_here:
            d_fg.union(p_id[i], par)
    fg = d_fg.labels(p_id)
    bg = []
    for i in range(n):
        if alter[i] < 25 and eigenbedarf_gedeckt[i]:
            bg.append(("own", p_id[i]))
        else:
            bg.append(("fg", fg[i]))
    return {
        "ehe": d_ehe.labels(p_id),
        "eg": d_eg.labels(p_id),
        "sn": d_sn.labels(p_id),
        "fg": fg,
        "bg": bg,
        "underspecified": underspecified,
    }


def refines(fine, coarse):
    """Every block of `fine` lies inside one block of `coarse`."""
    m = {}
    for f, c in zip(fine, coarse):
        if m.setdefault(f, c) != c:
            return False
    return True
