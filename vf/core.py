"""Shared runner machinery: shards, Hypothesis driver, known findings, evidence, replays."""
from __future__ import annotations

import collections
import dataclasses
import hashlib
import json
import multiprocessing as mp
import os
import sys
import time
import traceback

from . import VERIF_DIR
from .dates import sub_seed

# VERIF_OUT redirects evidence and replays (used when the checks are pointed at a scratch copy of
# the repository for sensitivity runs, so that the committed evidence is not overwritten)
_OUT = os.environ.get("VERIF_OUT") or VERIF_DIR
EVIDENCE_DIR = os.path.join(_OUT, "evidence")
REPLAY_DIR = os.path.join(_OUT, "replays")
KNOWN_FILE = os.path.join(VERIF_DIR, "known_findings.json")
NPROC = int(os.environ.get("VERIF_NPROC", "16"))


class HarnessError(Exception):
    """Something is wrong with the harness (not a property violation) -> exit 2."""


@dataclasses.dataclass
class Failure:
    key: str  # root-cause key
    what: str  # one line, human readable
    case: dict | None = None  # plain-JSON replay payload

    def to_json(self):
        return {"key": self.key, "what": self.what, "case": self.case}


class Violation(Exception):
    def __init__(self, failures):
        self.failures = failures
        super().__init__("; ".join(f"{f.key}: {f.what}" for f in failures[:3]))


def digest(obj) -> str:
    return hashlib.sha256(json.dumps(obj, sort_keys=True, default=str).encode()).hexdigest()[:16]


class Shard:
    """Accumulates what one worker explored."""

    def __init__(self):
        self.evaluations = 0
        self.nontrivial: set[str] = set()
        self.classes = collections.Counter()
        self.samples: list = []
        self.failures: list[Failure] = []
        self.known_seen = collections.Counter()
        self.notes: list[str] = []
        self.extra: dict = {}

    def sample(self, obj, limit=3):
        if len(self.samples) < limit:
            self.samples.append(obj)

    def result(self):
        return {
            "evaluations": self.evaluations,
            "nontrivial": sorted(self.nontrivial),
            "classes": dict(self.classes),
            "samples": self.samples,
            "failures": [f.to_json() for f in self.failures],
            "known_seen": dict(self.known_seen),
            "notes": self.notes,
            "extra": self.extra,
        }


# --------------------------------------------------------------------------------------
# known findings
# --------------------------------------------------------------------------------------


def load_known(prop: str):
    """{key: what} of *open* findings for this property (fixed entries suppress nothing)."""
    if not os.path.exists(KNOWN_FILE):
        return {}
    with open(KNOWN_FILE, encoding="utf-8") as fh:
        data = json.load(fh)
    out = {}
    for e in data.get("findings", []):
        if e.get("property") == prop and e.get("status") == "open":
            out[e["key"]] = e.get("what", "")
    return out


# --------------------------------------------------------------------------------------
# Hypothesis driver: explore, bucket by root-cause key, continue behind known keys
# --------------------------------------------------------------------------------------


def explore(strategy, oracle, *, n, seed, shard: Shard, known=(), shrink=False,
            max_new_keys=3, stateful=None):
    """Run `oracle(case) -> list[Failure]` on `n` generated cases.

    Failures whose key is in `known` (or was already reported by this call) are counted
    and ignored, so the search continues behind them; the first failure with a new key
    makes Hypothesis stop (and shrink when `shrink`), is recorded, and exploration
    resumes with the remaining budget.
    """
    from hypothesis import HealthCheck, Phase, given, settings
    from hypothesis import seed as hseed
    from hypothesis.errors import FailedHealthCheck, Unsatisfiable

    excluded = set(known)
    remaining = n
    round_no = 0
    while remaining > 0 and round_no <= max_new_keys:
        state = {"count": 0, "last": None}

        _state = state

        def body(case):
            _state["count"] += 1
            fails = oracle(case)
            new = []
            for f in fails:
                if f.key in excluded:
                    shard.known_seen[f.key] += 1
                else:
                    new.append(f)
            if new:
                _state["last"] = new
                raise Violation(new)

        phases = [Phase.generate] + ([Phase.shrink] if shrink else [])
        test = settings(
            max_examples=remaining,
            database=None,
            deadline=None,
            derandomize=False,
            report_multiple_bugs=False,
            phases=phases,
            suppress_health_check=[HealthCheck.too_slow, HealthCheck.data_too_large,
                                   HealthCheck.large_base_example],
        )(hseed(sub_seed(seed, "round", round_no))(given(strategy)(body)))
        try:
            test()
            shard.evaluations += state["count"]
            return
        except Violation:
            shard.evaluations += state["count"]
            remaining -= state["count"]
            for f in state["last"]:
                if f.key not in excluded:
                    shard.failures.append(f)
                    excluded.add(f.key)
            round_no += 1
        except (FailedHealthCheck, Unsatisfiable) as e:
            raise HarnessError(f"generator health check failed: {e}") from e


# --------------------------------------------------------------------------------------
# shard pool
# --------------------------------------------------------------------------------------


def _worker(args):
    modname, funcname, desc = args
    os.environ.setdefault("PYTHONHASHSEED", "0")
    import importlib
    import warnings

    warnings.simplefilter("ignore")
    try:
        mod = importlib.import_module(modname)
        res = getattr(mod, funcname)(desc)
        if isinstance(res, Shard):
            res = res.result()
        return {"ok": True, "res": res, "desc": desc}
    except HarnessError as e:
        return {"ok": False, "err": f"HarnessError: {e}", "desc": desc}
    except BaseException as e:  # noqa: BLE001
        return {"ok": False, "err": "".join(traceback.format_exception(e))[-4000:], "desc": desc}


def run_shards(modname, funcname, descs, nproc=None):
    nproc = min(nproc or NPROC, max(1, len(descs)))
    args = [(modname, funcname, d) for d in descs]
    if nproc == 1:
        return [_worker(a) for a in args]
    ctx = mp.get_context("fork")
    with ctx.Pool(nproc, maxtasksperchild=None) as pool:
        return list(pool.imap_unordered(_worker, args, chunksize=1))


# --------------------------------------------------------------------------------------
# check driver
# --------------------------------------------------------------------------------------


def merge(results):
    tot = Shard()
    errors = []
    for r in results:
        if not r["ok"]:
            errors.append(r["err"])
            continue
        res = r["res"]
        tot.evaluations += res["evaluations"]
        tot.nontrivial |= set(res["nontrivial"])
        tot.classes.update(res["classes"])
        for s in res["samples"]:
            tot.sample(s, limit=5)
        for f in res["failures"]:
            tot.failures.append(Failure(f["key"], f["what"], f["case"]))
        tot.known_seen.update(res["known_seen"])
        tot.notes.extend(res["notes"])
        for k, v in res["extra"].items():
            if isinstance(v, (int, float)) and not isinstance(v, bool):
                tot.extra[k] = tot.extra.get(k, 0) + v
            elif isinstance(v, list):
                tot.extra.setdefault(k, [])
                for x in v:
                    if x not in tot.extra[k]:
                        tot.extra[k].append(x)
            elif isinstance(v, dict):
                tot.extra.setdefault(k, {}).update(v)
            else:
                tot.extra[k] = v
    return tot, errors


def write_replay(prop: str, f: Failure) -> str:
    d = os.path.join(REPLAY_DIR, prop)
    os.makedirs(d, exist_ok=True)
    name = hashlib.sha256(f.key.encode()).hexdigest()[:12] + ".json"
    path = os.path.join(d, name)
    with open(path, "w", encoding="utf-8") as fh:
        json.dump({"property": prop, "key": f.key, "what": f.what, "case": f.case}, fh,
                  ensure_ascii=False, indent=1, default=str)
    return os.path.relpath(path, VERIF_DIR) if _OUT == VERIF_DIR else path


def write_evidence(prop, *, tier, seed, level, coverage, assumptions, wall_s, violations):
    os.makedirs(EVIDENCE_DIR, exist_ok=True)
    ev = {
        "property_id": prop,
        "tier": tier,
        "seed": int(seed),
        "level": level,
        "coverage": coverage,
        "assumptions": list(assumptions),
        "wall_s": round(float(wall_s), 2),
        "violations": int(violations),
    }
    path = os.path.join(EVIDENCE_DIR, f"{prop}.json")
    tmp = path + ".tmp"
    with open(tmp, "w", encoding="utf-8") as fh:
        json.dump(ev, fh, ensure_ascii=False, indent=1, default=str)
    os.replace(tmp, path)
    try:
        import jsonschema

        schema_path = "/root/.vp/EVIDENCE.schema.json"
        if os.path.exists(schema_path):
            with open(schema_path) as fh:
                jsonschema.validate(ev, json.load(fh))
    except ImportError:
        pass
    except Exception as e:  # noqa: BLE001
        print(f"HARNESS-ERROR: evidence does not validate: {str(e)[:300]}", file=sys.stderr)
    return path


def finish(prop, *, tier, seed, level, rule, assumptions, total: Shard, errors, t0,
           min_evaluations=1, min_nontrivial=2, exhaustive=False, extra_cov=None):
    """Merge -> known findings -> replays -> evidence -> exit code."""
    known = load_known(prop)
    new = []
    seen_keys = set()
    for f in total.failures:
        if f.key in known:
            total.known_seen[f.key] += 1
        elif f.key not in seen_keys:
            seen_keys.add(f.key)
            new.append(f)
    for k in sorted(total.known_seen):
        if k in known:
            print(f"KNOWN-FINDING: property={prop} {k} {known[k]} (seen {total.known_seen[k]}x)")
    coverage = {
        "evaluations": int(total.evaluations),
        "distinct_nontrivial": len(total.nontrivial),
        "rule": rule,
        "samples": total.samples[:5] or ["<none>"],
        "classes": dict(sorted(total.classes.items(), key=lambda kv: -kv[1])[:60]),
        "known_findings_seen": {k: int(v) for k, v in total.known_seen.items()},
        "exhaustive": bool(exhaustive),
    }
    coverage.update(total.extra)
    if extra_cov:
        coverage.update(extra_cov)
    if total.notes:
        coverage["notes"] = total.notes[:20]
    paths = []
    for f in new:
        paths.append(write_replay(prop, f))
    for e in errors[:3]:
        print("HARNESS-ERROR:", e, file=sys.stderr)
    write_evidence(prop, tier=tier, seed=seed, level=level, coverage=coverage,
                   assumptions=assumptions, wall_s=time.time() - t0, violations=len(new))
    for f, p in zip(new, paths):
        print(f"VIOLATION property={prop} replay={p}")
        print(f"  key={f.key}: {f.what}")
    if new:
        return 1
    if errors:
        return 2
    if total.evaluations < min_evaluations or len(total.nontrivial) < min_nontrivial:
        print(f"HARNESS-ERROR: too little explored (evaluations={total.evaluations}, "
              f"nontrivial={len(total.nontrivial)})", file=sys.stderr)
        return 2
    print(f"OK property={prop} tier={tier} seed={seed} evaluations={total.evaluations} "
          f"distinct_nontrivial={len(total.nontrivial)} wall={time.time()-t0:.0f}s")
    return 0
