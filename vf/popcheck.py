"""Generic driver for checks of the shape  (date stratum) x (generated population) -> oracle.

A check module provides

    PROP, LEVEL, RULE, ASSUMPTIONS
    BUDGET = {"quick": (n_dates, n_per_date), "thorough": (n_dates or None=all x3, n_per_date)}
    GEN = dict(mode=..., max_households=..., ...)          # popgen.populations kwargs
    oracle(pop, date, sh, ctx) -> list[core.Failure]        # records sh.nontrivial / classes
    replay(case) -> list[core.Failure]

and calls  popcheck.run(__name__, tier, seed, t0).
"""
from __future__ import annotations

import datetime
import importlib

from . import core, dates, popgen


def plan_dates(tier, seed, prop, n_dates, lo=None, hi=None):
    strata = dates.strata(lo or dates.SUPPORTED_START, hi)
    if n_dates is None:  # all strata, all positions
        out = []
        for s in strata:
            out += dates.stratum_days(s)
        return out
    chosen = dates.pick(strata, n_dates, seed, prop, "strata")
    out = []
    for s in chosen:
        days = dates.stratum_days(s)
        out.append(days[dates.sub_seed(seed, prop, "pos", s[0]) % len(days)])
    if len(out) < n_dates:  # more dates than strata: add further positions
        for s in strata:
            for d in dates.stratum_days(s):
                if d not in out and len(out) < n_dates:
                    out.append(d)
    return out


EARLY_LO = datetime.date(2005, 1, 1)


def early_dates(tier, seed, prop, n_quick):
    """First days of strata between 2005-01-01 and 2014-12-31 (many dated rules end in that period).
    Before 2015 the system is not complete (C08 starts in 2015), so the node universe of these dates is
    the screened one of env.base_targets and a case whose plain simulation fails is outside the domain."""
    strata = dates.strata(EARLY_LO, dates.SUPPORTED_START - datetime.timedelta(days=1))
    if tier == "thorough":
        return [s[0] for s in strata]
    return [s[0] for s in dates.pick(strata, n_quick, seed, prop, "early")]


def shard(desc):
    mod = importlib.import_module(desc["module"])
    sh = core.Shard()
    known = core.load_known(mod.PROP)
    gen = dict(getattr(mod, "GEN", {}))
    gen.update(desc.get("gen", {}))
    for iso in desc["dates"]:
        date = datetime.date.fromisoformat(iso)
        ctx = {"seed": desc["seed"], "tier": desc["tier"], "iso": iso, "known": known}
        if hasattr(mod, "prepare"):
            mod.prepare(date, ctx, sh)

        # (modules with a date range of their own, like C19 from 2003, are not "early strata" modules)
        early = bool(getattr(mod, "EARLY", 0)) and date < dates.SUPPORTED_START
        if early:
            from . import env

            if not env.all_nodes(date):
                sh.classes["early-date-without-computable-nodes"] += 1
                continue

        def oracle(pop, date=date, ctx=ctx, early=early):
            sh.classes.update(pop.classes())
            sh.classes.update(f"arch:{a}" for a in pop.archetypes)
            if not early:
                return mod.oracle(pop, date, sh, ctx)
            sh.classes["early-date-case(2005-2014)"] += 1
            # domain guard: an incomplete year may lack a parameter or a table entry in some branch; a
            # population whose plain simulation of all screened nodes fails is outside the domain (whether
            # a check reports such a failure as an exception or as a verdict of a comparison run)
            from . import env

            df = pop.df if hasattr(pop, "df") else pop[0].df
            try:
                env.simulate(df, date, targets=env.all_nodes(date))
            except Exception:  # noqa: BLE001
                sh.classes["early-date-case-outside-domain(plain simulation raises)"] += 1
                return []
            return mod.oracle(pop, date, sh, ctx)

        strat = mod.strategy(date, ctx) if hasattr(mod, "strategy") else popgen.populations(date, **gen)
        core.explore(strat, oracle, n=desc["n"],
                     seed=dates.sub_seed(desc["seed"], mod.PROP, iso), shard=sh,
                     known=known, shrink=desc.get("shrink", False))
        if hasattr(mod, "finish_date"):
            mod.finish_date(date, ctx, sh)
    sh.extra["dates"] = list(desc["dates"])
    return sh


def run(modname, tier, seed, t0, extra_descs=None, min_evaluations=20, min_nontrivial=5,
        exhaustive=False):
    mod = importlib.import_module(modname)
    n_dates, n_per = mod.BUDGET[tier]
    lo = getattr(mod, "DATE_LO", None)
    hi = getattr(mod, "DATE_HI", None)
    ds = [d.isoformat() for d in plan_dates(tier, seed, mod.PROP, n_dates, lo, hi)]
    if getattr(mod, "EARLY", 0):
        ds += [d.isoformat() for d in early_dates(tier, seed, mod.PROP, mod.EARLY) if d.isoformat() not in ds]
    nshards = min(core.NPROC * (2 if tier == "thorough" else 1), len(ds))
    descs = []
    for i in range(nshards):
        descs.append({"module": modname, "dates": ds[i::nshards], "n": n_per, "seed": seed,
                      "tier": tier, "shrink": False})
    results = core.run_shards("vf.popcheck", "shard", descs)
    if extra_descs:
        for m, f, dd in extra_descs:
            results += core.run_shards(m, f, dd)
    total, errors = core.merge(results)
    total.extra["n_dates"] = len(total.extra.get("dates", []))
    return core.finish(mod.PROP, tier=tier, seed=seed, level=mod.LEVEL, rule=mod.RULE,
                       assumptions=mod.ASSUMPTIONS, total=total, errors=errors, t0=t0,
                       min_evaluations=min_evaluations, min_nontrivial=min_nontrivial,
                       exhaustive=exhaustive)


def payload(df, date, **kw):
    out = {"date": str(date), "data": popgen.df_to_plain(df)}
    out.update(kw)
    return out


def unpack(case):
    return popgen.df_from_plain(case["data"]), datetime.date.fromisoformat(case["date"])
