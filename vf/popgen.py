"""Hypothesis strategies for *valid* GETTSIM populations (DESIGN.md section 2.2).

Construction, not rejection: a table is assembled from household archetypes so that all
documented structural invariants hold by construction (unique non-negative ids,
symmetric partner pointers, Einstandspartner in one household, parents >= 14 years older
and present in the table, *_hh inputs constant per household, spouses share
`gemeinsam_veranlagt`, consistent age / birth date, ...).

Structure and monetary amounts are drawn from Hypothesis (they shrink); the ~60
low-salience columns are filled from a PRNG seeded with one drawn integer (seed 0 =
documented defaults), which keeps one population well below Hypothesis' entropy limit.
"""
from __future__ import annotations

import datetime
import functools
import random

import numpy as np
import pandas as pd
from hypothesis import strategies as st

from _gettsim.config import TYPES_INPUT_VARIABLES

from . import env

ARCHETYPES = [
    "single",
    "couple",
    "single_parent",
    "couple_kids",
    "patchwork",
    "three_gen",
    "adult_child",
    "child_with_partner",
    "teen_parent",
    "flat_share",
    "pensioners",
    "spouse_apart",
    "pensioner_parent",
    "parents_not_partners",
]

POINTER_COLS = [
    "p_id_elternteil_1",
    "p_id_elternteil_2",
    "p_id_ehepartner",
    "p_id_einstandspartner",
    "p_id_kindergeld_empf",
    "p_id_erziehgeld_empf",
    "p_id_betreuungsk_träger",
]

MONEY_COLS = [
    "bruttolohn_m",
    "eink_selbst_m",
    "kapitaleink_brutto_m",
    "eink_vermietung_m",
    "sonstig_eink_m",
    "priv_rente_m",
    "vermögen_bedürft",
    "bruttolohn_vorj_m",
]

HH_COLS = [c for c in TYPES_INPUT_VARIABLES if c.endswith("_hh")]


# --------------------------------------------------------------------------------------
# statutory boundaries, read from the parameters in force
# --------------------------------------------------------------------------------------


def _numeric_leaves(obj, out):
    if isinstance(obj, dict):
        for v in obj.values():
            _numeric_leaves(v, out)
    elif isinstance(obj, (list, tuple)):
        for v in obj:
            _numeric_leaves(v, out)
    elif isinstance(obj, np.ndarray):
        if obj.dtype.kind in "fiu":
            for v in obj.ravel():
                _numeric_leaves(float(v), out)
    elif isinstance(obj, (int, float, np.integer, np.floating)) and not isinstance(
        obj, bool
    ):
        v = float(obj)
        if np.isfinite(v):
            out.append(v)


@functools.lru_cache(maxsize=64)
def boundaries(iso: str) -> tuple:
    """Monthly amounts that sit on a statutory threshold at this date."""
    params, _ = env.policy_env(iso)
    raw: list[float] = []
    _numeric_leaves(params, raw)
    pool = set()
    for v in raw:
        if 50 <= v <= 20000:
            pool.add(round(v, 2))
        if 3000 <= v <= 400000:
            pool.add(round(v / 12, 2))
    sv = params.get("sozialv_beitr", {})
    named = []
    for path in (
        ("geringfügige_eink_grenzen_m", "minijob"),
        ("geringfügige_eink_grenzen_m", "midijob"),
        ("beitr_bemess_grenze_m", "ges_rentenv"),
        ("beitr_bemess_grenze_m", "ges_krankenv"),
    ):
        cur = sv
        try:
            for k in path:
                cur = cur[k]
            _numeric_leaves(cur, named)
        except (KeyError, TypeError):
            pass
    pool |= {round(v, 2) for v in named if 50 <= v <= 20000}
    return tuple(sorted(pool)), tuple(sorted(set(round(v, 2) for v in named)))


def amount(date_iso: str, mode: str):
    """Strategy for one monetary amount (EUR, monthly scale)."""
    pool, named = boundaries(date_iso)
    mid = st.floats(0, 10000, allow_nan=False).map(lambda v: round(v, 2))
    parts = [st.just(0.0), mid]
    if mode in ("branch", "extreme") and pool:
        b = st.sampled_from(pool)
        if named:
            b = st.one_of(b, st.sampled_from(named))
        parts.append(
            st.tuples(b, st.sampled_from([0.0, 0.01, -0.01])).map(
                lambda t: round(max(t[0] + t[1], 0.0), 2)
            )
        )
        parts.append(st.integers(0, 80).map(lambda k: float(k * 100)))
    if mode == "extreme":
        parts.append(
            st.floats(4.0, 6.3).map(lambda e: float(round(10**e, 2)))
        )  # 1e4 .. 2e6
    return st.one_of(*parts)


# --------------------------------------------------------------------------------------
# builder
# --------------------------------------------------------------------------------------


class _Builder:
    def __init__(self, date: datetime.date):
        self.date = date
        self.rows: list[dict] = []
        self.hh: list[dict] = []
        self.tags: set[str] = set()
        self.arch: list[str] = []
        self.swap_parents = lambda: False
        self.no_recipient = lambda: False

    def new_hh(self, **attrs) -> int:
        self.hh.append(attrs)
        return len(self.hh) - 1

    def add(self, hh: int, alter: int, **cols) -> int:
        row = {
            "hh": hh,
            "alter": int(alter),
            "e1": -1,
            "e2": -1,
            "ehe": -1,
            "einst": -1,
            "kg": -1,
            "bk": -1,
            "kind": False,
            "weiblich": False,
            "alleinerz": False,
            "gemeinsam_veranlagt": False,
            "eigenbedarf_gedeckt": False,
            "in_ausbildung": False,
            "rentner": False,
        }
        row.update(cols)
        self.rows.append(row)
        return len(self.rows) - 1

    def couple(self, a: int, b: int, married: bool, joint: bool, same_hh: bool = True):
        if same_hh:
            self.rows[a]["einst"] = b
            self.rows[b]["einst"] = a
        if married:
            self.rows[a]["ehe"] = b
            self.rows[b]["ehe"] = a
            self.rows[a]["gemeinsam_veranlagt"] = joint
            self.rows[b]["gemeinsam_veranlagt"] = joint

    def child_of(self, c: int, p1: int, p2: int = -1, kg: int | None = None):
        self.rows[c]["e1"] = p1
        self.rows[c]["e2"] = p2
        self.rows[c]["kg"] = p1 if kg is None else kg
        # now and then the recipient of the child benefit is not in the table (-1 is the documented
        # "no such person" value of every pointer column)
        if self.no_recipient():
            self.rows[c]["kg"] = -1
        # which parent sits in which of the two parent columns carries no meaning - also when only one
        # parent is in the table (mother = column 1, father = column 2 conventions leave column 1 empty)
        if self.swap_parents():
            self.rows[c]["e1"], self.rows[c]["e2"] = p2, p1


def _adult_age(draw, lo=18, hi=64):
    return draw(st.one_of(st.integers(lo, hi), st.sampled_from([lo, 24, 25, 26, hi])))


def _child_age(draw, parent_age: int, lo=0, hi=17):
    hi = max(min(hi, parent_age - 14), lo)
    return draw(
        st.one_of(
            st.integers(lo, hi),
            st.sampled_from([a for a in (0, 1, 2, 5, 6, 10, 13, 14, 15, 17, 18, 24) if lo <= a <= hi] or [lo]),
        )
    )


def _draw_household(draw, b: _Builder, arch: str, max_children: int):
    """Append one household (or two linked ones) of the given archetype."""
    hh = b.new_hh()
    b.arch.append(arch)
    nkids = st.integers(1, max(1, min(max_children, 4)))
    if max_children > 4:
        nkids = st.one_of(nkids, st.integers(5, max_children))

    if arch == "single":
        b.add(hh, _adult_age(draw, 18, 100), weiblich=draw(st.booleans()))

    elif arch == "couple":
        married = draw(st.booleans())
        a = b.add(hh, _adult_age(draw), weiblich=True)
        c = b.add(hh, _adult_age(draw), weiblich=draw(st.booleans()))
        b.couple(a, c, married, joint=draw(st.booleans()))

    elif arch == "single_parent":
        pa = _adult_age(draw, 18, 60)
        # sometimes all children of the family come from one age band (rules count children "up to 6",
        # "up to 15", "under 18": a family with many children and none in a band is otherwise rare)
        klo, khi = draw(st.sampled_from([(0, 24), (0, 24), (0, 24), (0, 6), (7, 15), (7, 17), (16, 24)]))
        pa = max(pa, klo + 18)
        p = b.add(hh, pa, weiblich=draw(st.booleans()), alleinerz=True)
        other = -1
        where = draw(st.sampled_from(["unknown", "other_hh", "other_hh_kg"]))
        if where != "unknown":
            hh2 = b.new_hh()
            b.arch.append("other_parent")
            other = b.add(hh2, _adult_age(draw, max(18, pa - 10), 70), weiblich=not b.rows[p]["weiblich"])
            b.tags.add("cross_hh_parent")
        for _ in range(draw(nkids)):
            c = b.add(hh, _child_age(draw, pa, klo, khi), weiblich=draw(st.booleans()))
            if other >= 0 and b.rows[other]["alter"] - b.rows[c]["alter"] < 14:
                b.rows[c]["alter"] = max(0, b.rows[other]["alter"] - 14)
            b.child_of(c, p, other)
            if where == "other_hh_kg" and draw(st.booleans()):
                b.rows[c]["kg"] = other

    elif arch == "couple_kids":
        married = draw(st.booleans())
        klo, khi = draw(st.sampled_from([(0, 24), (0, 24), (0, 24), (0, 6), (7, 15), (7, 17), (16, 24)]))
        pa = max(_adult_age(draw, 20, 60), klo + 18)
        a = b.add(hh, pa, weiblich=True)
        c = b.add(hh, max(_adult_age(draw, 20, 68), klo + 18), weiblich=False)
        b.couple(a, c, married, joint=draw(st.booleans()))
        youngest = min(pa, b.rows[c]["alter"])
        for _ in range(draw(nkids)):
            k = b.add(hh, _child_age(draw, youngest, klo, khi), weiblich=draw(st.booleans()))
            b.child_of(k, a, c, kg=draw(st.sampled_from([a, c])))

    elif arch == "patchwork":
        married = draw(st.booleans())
        a = b.add(hh, _adult_age(draw, 25, 60), weiblich=True)
        c = b.add(hh, _adult_age(draw, 25, 60), weiblich=False)
        b.couple(a, c, married, joint=draw(st.booleans()))
        kinds = draw(
            st.lists(st.sampled_from(["a", "b", "joint"]), min_size=1, max_size=max(1, min(max_children, 4)))
        )
        # who is listed first matters for order-dependent algorithms: sometimes put
        # the partner *without* own children first
        for kind in kinds:
            if kind == "a":
                k = b.add(hh, _child_age(draw, b.rows[a]["alter"], 0, 24))
                b.child_of(k, a, -1)
                b.tags.add("step_child")
            elif kind == "b":
                k = b.add(hh, _child_age(draw, b.rows[c]["alter"], 0, 24))
                b.child_of(k, c, -1)
                b.tags.add("step_child")
            else:
                k = b.add(hh, _child_age(draw, min(b.rows[a]["alter"], b.rows[c]["alter"]), 0, 24))
                b.child_of(k, a, c)
            b.rows[k]["weiblich"] = draw(st.booleans())

    elif arch == "three_gen":
        ga = _adult_age(draw, 55, 95)
        g = b.add(hh, ga, weiblich=True, rentner=ga >= 65)
        if draw(st.booleans()):
            g2 = b.add(hh, _adult_age(draw, 55, 95), weiblich=False)
            b.rows[g2]["rentner"] = b.rows[g2]["alter"] >= 65
            b.couple(g, g2, True, joint=draw(st.booleans()))
            ga = min(ga, b.rows[g2]["alter"])
        pa = draw(st.integers(28, max(28, min(ga - 14, 50))))
        pa = min(pa, ga - 14)
        p = b.add(hh, pa, weiblich=draw(st.booleans()), alleinerz=True)
        b.child_of(p, g, -1, kg=-1)
        for _ in range(draw(st.integers(1, 2))):
            k = b.add(hh, _child_age(draw, pa, 0, 17), weiblich=draw(st.booleans()))
            b.child_of(k, p, -1)
        b.tags.add("three_gen")

    elif arch == "adult_child":
        pa = _adult_age(draw, 45, 75)
        a = b.add(hh, pa, weiblich=True)
        second = draw(st.booleans())
        if second:
            c = b.add(hh, _adult_age(draw, 45, 75), weiblich=False)
            b.couple(a, c, True, joint=draw(st.booleans()))
            pa = min(pa, b.rows[c]["alter"])
        else:
            c = -1
        ka = draw(st.sampled_from([18, 20, 22, 24, 25, 26, 30]))
        ka = min(ka, pa - 14)
        k = b.add(hh, ka, weiblich=draw(st.booleans()))
        b.child_of(k, a, c, kg=a if ka < 25 else -1)
        if ka < 25 and draw(st.booleans()):
            b.rows[k]["eigenbedarf_gedeckt"] = True
            b.tags.add("eigenbedarf")
        b.tags.add("adult_child")

    elif arch == "child_with_partner":
        pa = _adult_age(draw, 45, 70)
        a = b.add(hh, pa, weiblich=True)
        c = b.add(hh, _adult_age(draw, 45, 70), weiblich=False)
        b.couple(a, c, True, joint=draw(st.booleans()))
        ka = draw(st.sampled_from([18, 19, 21, 24]))
        k = b.add(hh, ka, weiblich=True)
        b.child_of(k, a, c, kg=-1)
        sp = b.add(hh, draw(st.integers(18, 30)), weiblich=False)
        b.couple(k, sp, draw(st.booleans()), joint=draw(st.booleans()))
        b.tags.add("partnered_child")

    elif arch == "teen_parent":
        pa = _adult_age(draw, 40, 60)
        a = b.add(hh, pa, weiblich=True, alleinerz=False)
        ka = draw(st.integers(16, 22))
        k = b.add(hh, ka, weiblich=True)
        b.child_of(k, a, -1)
        baby = b.add(hh, draw(st.integers(0, ka - 14)), weiblich=draw(st.booleans()))
        b.child_of(baby, k, -1)
        b.rows[k]["alleinerz"] = True
        b.tags.add("teen_parent")

    elif arch == "parents_not_partners":
        # both parents of a child live in the child's household without being each other's partner
        # (separated parents who still share the flat); the documentation does not say whose family
        # unit the child belongs to, but the table is valid input
        pa = _adult_age(draw, 30, 60)
        a = b.add(hh, pa, weiblich=True)
        c = b.add(hh, _adult_age(draw, 30, 64), weiblich=False)
        youngest = min(pa, b.rows[c]["alter"])
        for _ in range(draw(st.integers(1, 2))):
            k = b.add(hh, _child_age(draw, youngest, 0, 17), weiblich=draw(st.booleans()))
            b.child_of(k, a, c, kg=draw(st.sampled_from([a, c])))
        b.tags.add("parents_not_partners")

    elif arch == "flat_share":
        for _ in range(draw(st.integers(2, 4))):
            b.add(hh, _adult_age(draw, 18, 70), weiblich=draw(st.booleans()))
        b.tags.add("flat_share")

    elif arch == "pensioners":
        ga = _adult_age(draw, 60, 100)
        g = b.add(hh, ga, weiblich=True, rentner=draw(st.booleans()) or ga >= 67)
        if draw(st.booleans()):
            g2a = _adult_age(draw, 55, 100)
            g2 = b.add(hh, g2a, weiblich=False, rentner=g2a >= 65)
            b.couple(g, g2, draw(st.booleans()), joint=draw(st.booleans()))
        b.tags.add("pensioner")

    elif arch == "pensioner_parent":
        # a (disability / old-age) pensioner, alone or with a pensioner partner, raising a child
        pa = draw(st.integers(45, 72))
        a = b.add(hh, pa, weiblich=draw(st.booleans()), rentner=True, alleinerz=True)
        if draw(st.booleans()):
            c = b.add(hh, draw(st.integers(50, 75)), weiblich=not b.rows[a]["weiblich"], rentner=True)
            b.couple(a, c, True, joint=draw(st.booleans()))
            b.rows[a]["alleinerz"] = False
        for _ in range(draw(st.integers(1, 2))):
            k = b.add(hh, _child_age(draw, pa, 3, 17), weiblich=draw(st.booleans()))
            b.child_of(k, a, -1)
        b.tags.add("pensioner_parent")

    elif arch == "spouse_apart":
        # spouses in two households (year of separation, second home); the children, if any, live with one
        # of them, who then raises them alone
        with_kids = draw(st.booleans())
        a = b.add(hh, _adult_age(draw, 32, 64) if with_kids else _adult_age(draw), weiblich=True, alleinerz=with_kids)
        hh2 = b.new_hh()
        b.arch.append("spouse_apart_2")
        c = b.add(hh2, _adult_age(draw, 32, 64) if with_kids else _adult_age(draw), weiblich=False)
        b.couple(a, c, True, joint=draw(st.booleans()), same_hh=False)
        b.tags.add("spouse_apart")
        if with_kids:
            youngest = min(b.rows[a]["alter"], b.rows[c]["alter"])
            for _ in range(draw(st.integers(1, 3))):
                k = b.add(hh, _child_age(draw, youngest, 0, 17), weiblich=draw(st.booleans()))
                b.child_of(k, a, c, kg=draw(st.sampled_from([a, a, c])))
            b.tags.add("spouse_apart_with_children")
    else:  # pragma: no cover
        raise ValueError(arch)


def _birth(date: datetime.date, alter: int, rng: random.Random, default: bool):
    if default:
        month, day = 1, 1
    else:
        month = rng.randint(1, 12)
        day = rng.randint(1, 28)
    had_birthday = (month, day) <= (date.month, date.day)
    year = date.year - alter - (0 if had_birthday else 1)
    return year, month, day


def _finalize(draw, b: _Builder, date: datetime.date, mode: str, fill_seed: int,
              id_mode: str, shuffle: bool) -> pd.DataFrame:
    n = len(b.rows)
    iso = date.isoformat()
    rng = random.Random(fill_seed)
    default = fill_seed == 0

    # ids
    if id_mode == "dense":
        pids = list(range(n))
        hhids = list(range(len(b.hh)))
    else:
        pids = draw(st.lists(st.integers(0, 999_999), min_size=n, max_size=n, unique=True))
        hhids = draw(st.lists(st.integers(0, 9_999), min_size=len(b.hh), max_size=len(b.hh), unique=True))

    def ref(i):
        return -1 if i < 0 else pids[i]

    amt = amount(iso, mode)
    rent_s = st.one_of(st.sampled_from([0.0, 250.0, 400.0, 650.0, 1200.0]), st.floats(0, 3000).map(lambda v: round(v, 2)))
    hh_attrs = []
    for _ in b.hh:
        max_stufe = 7 if date >= datetime.date(2020, 1, 1) else 6
        hh_attrs.append(
            {
                "wohnort_ost": draw(st.booleans()),
                "mietstufe": draw(st.integers(1, max_stufe)),
                "bruttokaltmiete_m_hh": draw(rent_s),
                "heizkosten_m_hh": draw(st.sampled_from([0.0, 40.0, 80.0, 150.0, 400.0])),
                "wohnfläche_hh": draw(st.sampled_from([12.0, 30.0, 45.0, 50.0, 60.0, 75.0, 90.0, 120.0, 250.0])),
                "bewohnt_eigentum_hh": draw(st.booleans()) if mode != "mid" else False,
                "immobilie_baujahr_hh": 1 if default else rng.choice([1, 2, 3, 1950, 1970, 1995, 2010]),
            }
        )

    cols: dict[str, list] = {c: [] for c in TYPES_INPUT_VARIABLES}
    has_child_in_table = [False] * n
    youngest_child_age = [None] * n
    for r in b.rows:
        for p in (r["e1"], r["e2"]):
            if p >= 0:
                has_child_in_table[p] = True
                ya = youngest_child_age[p]
                youngest_child_age[p] = r["alter"] if ya is None else min(ya, r["alter"])

    for i, r in enumerate(b.rows):
        alter = r["alter"]
        hh = hh_attrs[r["hh"]]
        parent_in_hh = any(p >= 0 and b.rows[p]["hh"] == r["hh"] for p in (r["e1"], r["e2"]))
        is_minor = alter < 18
        in_ausb = r["in_ausbildung"] or (6 <= alter < 18) or (18 <= alter < 25 and parent_in_hh and (default or rng.random() < 0.6))
        partnered = r["einst"] >= 0 or r["ehe"] >= 0
        kind = parent_in_hh and not has_child_in_table[i] and not partnered and (is_minor or (alter < 25 and in_ausb))
        rentner = bool(r["rentner"])
        gy, gm, gd = _birth(date, alter, rng, default)
        if rentner:
            lo = gy + 60
            jr = min(max(lo, date.year - (0 if default else rng.randint(0, 8))), date.year)
            jr = max(jr, min(lo, date.year))
            mr = 1 if default else rng.randint(1, 12)
            if jr == date.year:
                mr = min(mr, date.month)
        else:
            jr = gy + (67 if default else rng.choice([63, 65, 66, 67]))
            if jr <= date.year:
                jr = date.year + 1
            mr = 1 if default else rng.randint(1, 12)

        money = {}
        working_age = 15 <= alter
        for c in MONEY_COLS:
            if not working_age and c != "vermögen_bedürft" and c != "sonstig_eink_m":
                money[c] = 0.0
                continue
            if c == "bruttolohn_m":
                money[c] = draw(amt) if not rentner or draw(st.booleans()) else 0.0
            elif c == "vermögen_bedürft":
                money[c] = draw(st.one_of(st.just(0.0), amt.map(lambda v: round(v * 10, 2))))
            elif c == "priv_rente_m":
                money[c] = draw(amt) if rentner and draw(st.booleans()) else 0.0
            elif c == "bruttolohn_vorj_m":
                money[c] = draw(st.one_of(st.just(money["bruttolohn_m"]), amt))
            else:
                # most people have few income sources
                money[c] = draw(st.one_of(st.just(0.0), st.just(0.0), amt))
        if mode == "extreme" and working_age and draw(st.booleans()):
            money["eink_vermietung_m"] = -money["eink_vermietung_m"] if money["eink_vermietung_m"] else float(draw(st.sampled_from([-1.0, -500.0, -25000.0, -100000.0])))
            b.tags.add("negative_rent")
        elif mode != "mid" and working_age and money["eink_vermietung_m"] > 0 and draw(st.integers(0, 5)) == 0:
            money["eink_vermietung_m"] = -money["eink_vermietung_m"]
            b.tags.add("negative_rent")

        if mode != "mid" and working_age and money["kapitaleink_brutto_m"] > 0 and draw(st.integers(0, 7)) == 0:
            # a realised capital loss (negative incomes are ordinary input: rental losses, capital losses)
            money["kapitaleink_brutto_m"] = -money["kapitaleink_brutto_m"]
            b.tags.add("capital_loss")
        selbst = money["eink_selbst_m"] > 0 and (default or rng.random() < 0.7)
        erwerbs = money["bruttolohn_m"] > 0 or money["eink_selbst_m"] > 0

        def R(p, lo, hi, dflt, nd=2):
            if default or rng.random() > p:
                return dflt
            return round(rng.uniform(lo, hi), nd)

        def B(p, dflt=False):
            if default:
                return dflt
            return rng.random() < p

        years_worked = max(0, alter - 20)
        vals = {
            "hh_id": hhids[r["hh"]],
            "p_id": pids[i],
            "p_id_elternteil_1": ref(r["e1"]),
            "p_id_elternteil_2": ref(r["e2"]),
            "p_id_kindergeld_empf": ref(r["kg"]) if alter < 25 else -1,
            "p_id_erziehgeld_empf": ref(r["kg"]) if alter < 3 else -1,
            "p_id_ehepartner": ref(r["ehe"]),
            "p_id_einstandspartner": ref(r["einst"]),
            "p_id_betreuungsk_träger": ref(r["kg"]) if alter < 14 else -1,
            "vermögen_bedürft": money["vermögen_bedürft"],
            "eigenbedarf_gedeckt": bool(r["eigenbedarf_gedeckt"]),
            "gemeinsam_veranlagt": bool(r["gemeinsam_veranlagt"]),
            "bruttolohn_m": money["bruttolohn_m"],
            "alter": alter,
            "weiblich": bool(r["weiblich"]),
            "selbstständig": bool(selbst),
            "wohnort_ost": hh["wohnort_ost"],
            "ges_pflegev_hat_kinder": bool(has_child_in_table[i] or (alter >= 23 and B(0.3))),
            "eink_selbst_m": money["eink_selbst_m"],
            "in_priv_krankenv": B(0.15) and alter >= 18,
            "priv_rentenv_beitr_m": R(0.3, 0, 400, 0.0) if erwerbs else 0.0,
            "elterngeld_nettoeinkommen_vorjahr_m": 0.0,
            "elterngeld_zu_verst_eink_vorjahr_y_sn": 0.0,
            "bruttolohn_vorj_m": money["bruttolohn_vorj_m"],
            "arbeitsstunden_w": (40.0 if default else rng.choice([5.0, 10.0, 14.9, 15.0, 20.0, 30.0, 38.5, 40.0, 60.0])) if erwerbs else 0.0,
            "geburtsjahr": gy,
            "geburtstag": gd,
            "geburtsmonat": gm,
            "mietstufe": hh["mietstufe"],
            "entgeltp_ost": float(R(0.9, 0, years_worked * 1.5, float(years_worked), 4)) if hh["wohnort_ost"] else 0.0,
            "entgeltp_west": 0.0 if hh["wohnort_ost"] else float(R(0.9, 0, years_worked * 1.5, float(years_worked), 4)),
            "kind": bool(kind),
            "rentner": rentner,
            "betreuungskost_m": (R(0.5, 0, 900, 0.0) if alter < 14 and r["kg"] >= 0 else 0.0),
            "kapitaleink_brutto_m": money["kapitaleink_brutto_m"],
            "eink_vermietung_m": money["eink_vermietung_m"],
            "bruttokaltmiete_m_hh": hh["bruttokaltmiete_m_hh"],
            "heizkosten_m_hh": hh["heizkosten_m_hh"],
            "jahr_renteneintr": jr,
            "monat_renteneintr": mr,
            "behinderungsgrad": 0 if default else rng.choice([0, 0, 0, 0, 20, 25, 30, 50, 80, 100]),
            "wohnfläche_hh": hh["wohnfläche_hh"],
            "monate_elterngeldbezug": 0,
            "elterngeld_claimed": False,
            "in_ausbildung": bool(in_ausb),
            "alleinerz": bool(r["alleinerz"] and has_child_in_table[i]),
            "bewohnt_eigentum_hh": hh["bewohnt_eigentum_hh"],
            "immobilie_baujahr_hh": hh["immobilie_baujahr_hh"],
            "sonstig_eink_m": money["sonstig_eink_m"],
            "grundr_entgeltp": float(R(0.9, 0, years_worked * 0.9, years_worked * 0.5, 4)),
            "grundr_zeiten": (years_worked * 12) if default else rng.randint(0, years_worked * 12),
            "grundr_bew_zeiten": 0,
            "priv_rente_m": money["priv_rente_m"],
            "schwerbeh_g": False,
            "m_pflichtbeitrag": float(R(0.9, 0, years_worked * 12, years_worked * 12.0, 0)),
            "m_freiw_beitrag": float(R(0.3, 0, 60, 0.0, 0)),
            "m_mutterschutz": float(R(0.2, 0, 12, 0.0, 0)) if r["weiblich"] and alter >= 18 else 0.0,
            "m_arbeitsunfähig": float(R(0.2, 0, 24, 0.0, 0)) if alter >= 18 else 0.0,
            "m_krank_ab_16_bis_24": float(R(0.1, 0, 12, 0.0, 0)) if alter >= 16 else 0.0,
            "m_arbeitsl": float(R(0.3, 0, 60, 0.0, 0)) if alter >= 18 else 0.0,
            "m_ausbild_suche": float(R(0.1, 0, 12, 0.0, 0)) if alter >= 17 else 0.0,
            "m_schul_ausbild": float(R(0.7, 0, 96, 12.0 if alter >= 18 else 0.0, 0)) if alter >= 17 else 0.0,
            "m_geringf_beschäft": float(R(0.2, 0, 60, 0.0, 0)) if alter >= 16 else 0.0,
            "m_alg1_übergang": float(R(0.2, 0, 24, 0.0, 0)) if alter >= 18 else 0.0,
            "m_ersatzzeit": float(R(0.1, 0, 24, 0.0, 0)) if alter >= 18 else 0.0,
            "m_kind_berücks_zeit": float(R(0.6, 0, 120, 0.0, 0)) if has_child_in_table[i] else 0.0,
            "m_pfleg_berücks_zeit": float(R(0.05, 0, 39, 0.0, 0)) if alter >= 40 else 0.0,
            "y_pflichtbeitr_ab_40": float(R(0.8, 0, max(0, alter - 40), float(max(0, min(alter, 65) - 40)), 0)),
            "pflichtbeitr_8_in_10": B(0.5, True) and alter >= 30,
            "arbeitsl_1y_past_585": B(0.1) and alter >= 59,
            "vertra_arbeitsl_1997": False,
            "vertra_arbeitsl_2006": B(0.1) and alter >= 60,
            "höchster_bruttolohn_letzte_15_jahre_vor_rente_y": float(R(0.8, 0, 120000, 30000.0)) if rentner else 0.0,
            "anwartschaftszeit": B(0.5, True) and alter >= 18,
            "arbeitssuchend": B(0.3) and 18 <= alter < 67 and not rentner,
            "m_durchg_alg1_bezug": float(R(0.3, 0, 30, 0.0, 0)) if alter >= 18 else 0.0,
            "sozialv_pflicht_5j": float(R(0.8, 0, 60, 60.0 if alter >= 25 else 0.0, 0)) if alter >= 18 else 0.0,
            "bürgerg_bezug_vorj": B(0.4),
            "kind_unterh_anspr_m": 0.0,
            "kind_unterh_erhalt_m": 0.0,
            "steuerklasse": 1,
            "budgetsatz_erzieh": False,
            "voll_erwerbsgemind": B(0.05) and alter >= 18,
            "teilw_erwerbsgemind": False,
        }
        if not vals["voll_erwerbsgemind"]:
            vals["teilw_erwerbsgemind"] = B(0.05) and alter >= 18
        vals["schwerbeh_g"] = vals["behinderungsgrad"] >= 50 and B(0.5)
        vals["grundr_bew_zeiten"] = vals["grundr_zeiten"] if default else rng.randint(0, vals["grundr_zeiten"])
        # steuerklasse: 3/4/5 only for spouses, 2 for single parents, else 1 (6 = second job)
        if r["ehe"] >= 0:
            vals["steuerklasse"] = 4 if default else rng.choice([3, 4, 5, 4])
        elif vals["alleinerz"]:
            vals["steuerklasse"] = 2
        elif not default and rng.random() < 0.05:
            vals["steuerklasse"] = 6
        # child maintenance only for children whose second parent lives elsewhere
        lives_with_one = parent_in_hh and alter < 25 and not all(
            p < 0 or b.rows[p]["hh"] == r["hh"] for p in (r["e1"], r["e2"])
        ) or (parent_in_hh and r["e2"] < 0 and alter < 18)
        if lives_with_one and not default:
            if rng.random() < 0.5:
                vals["kind_unterh_anspr_m"] = round(rng.uniform(0, 700), 2)
                vals["kind_unterh_erhalt_m"] = round(vals["kind_unterh_anspr_m"] * rng.choice([0, 0.5, 1.0]), 2)
        # parental leave benefit for parents of a baby
        ya = youngest_child_age[i]
        if ya is not None and ya <= 2 and alter >= 16:
            if default or rng.random() < 0.8:
                vals["elterngeld_claimed"] = True
                vals["monate_elterngeldbezug"] = 0 if default else rng.randint(0, 14)
                vals["elterngeld_nettoeinkommen_vorjahr_m"] = draw(amt)
        for c, v in vals.items():
            cols[c].append(v)

    df = pd.DataFrame(cols)
    # *_sn inputs are constant within jointly assessed spouses
    sn_val = {}
    ezve = []
    for i, r in enumerate(b.rows):
        key = i
        if r["ehe"] >= 0 and r["gemeinsam_veranlagt"]:
            key = min(i, r["ehe"])
        if key not in sn_val:
            any_claim = cols["elterngeld_claimed"][i] or (
                r["ehe"] >= 0 and cols["elterngeld_claimed"][r["ehe"]]
            )
            sn_val[key] = draw(amount(iso, mode)) * 12 if any_claim else 0.0
        ezve.append(float(round(sn_val[key], 2)))
    df["elterngeld_zu_verst_eink_vorjahr_y_sn"] = ezve

    for c, t in TYPES_INPUT_VARIABLES.items():
        if t is int:
            df[c] = df[c].astype("int64")
        elif t is float:
            df[c] = df[c].astype("float64")
        elif t is bool:
            df[c] = df[c].astype("bool")
    if shuffle and n > 1:
        perm = draw(st.permutations(list(range(n))))
        df = df.iloc[list(perm)].reset_index(drop=True)
    return df


class Population:
    """A generated table plus what the generator knows about it."""

    def __init__(self, df, date, tags, archetypes, mode):
        self.df = df
        self.date = date
        self.tags = frozenset(tags)
        self.archetypes = tuple(archetypes)
        self.mode = mode

    def classes(self):
        df = self.df
        out = set(self.tags)
        out.add(f"n_hh={min(df['hh_id'].nunique(), 6)}{'+' if df['hh_id'].nunique() > 6 else ''}")
        out.add(f"n_p={'1' if len(df)==1 else '2-4' if len(df)<=4 else '5-9' if len(df)<=9 else '10+'}")
        if len(df) and not bool(df["alter"].iloc[0] >= 18):
            out.add("first_row_minor")
        if (df["p_id"].diff().dropna() < 0).any():
            out.add("unsorted_p_id")
        if df["p_id"].max() >= len(df):
            out.add("sparse_ids")
        return out


@st.composite
def populations(draw, date, mode="branch", max_households=5, max_children=4,
                archetypes=None, shuffle=None):
    """Strategy: a valid population for `date` (datetime.date or ISO string)."""
    date = env.to_date(date)
    b = _Builder(date)
    archs = archetypes or ARCHETYPES
    n_hh = draw(st.integers(1, max_households))
    b.swap_parents = lambda: draw(st.booleans())
    b.no_recipient = lambda: draw(st.integers(0, 7)) == 0
    for _ in range(n_hh):
        if len(b.hh) >= max_households:
            break
        _draw_household(draw, b, draw(st.sampled_from(archs)), max_children)
    # early / regular pensioners also occur inside families (couples with children, patchwork)
    for r in b.rows:
        if r["alter"] >= 60 and not r["rentner"] and draw(st.integers(0, 2)) == 0:
            r["rentner"] = True
    fill_seed = draw(st.integers(0, 2**31 - 1))
    id_mode = draw(st.sampled_from(["dense", "sparse", "sparse"]))
    shuf = draw(st.booleans()) if shuffle is None else shuffle
    df = _finalize(draw, b, date, mode, fill_seed, id_mode, shuf)
    return Population(df, date, b.tags, b.arch, mode)


# --------------------------------------------------------------------------------------
# plain (de)serialisation for replay files and evidence samples
# --------------------------------------------------------------------------------------


def df_to_plain(df: pd.DataFrame) -> dict:
    out = {}
    for c in df.columns:
        s = df[c]
        if s.dtype.kind == "M":
            out[c] = {"dtype": str(s.dtype), "values": [str(v) for v in s.values]}
        else:
            out[c] = {"dtype": str(s.dtype), "values": s.tolist()}
    return out


def df_from_plain(d: dict) -> pd.DataFrame:
    cols = {}
    for c, spec in d.items():
        cols[c] = pd.Series(spec["values"], dtype=spec["dtype"])
    return pd.DataFrame(cols)


def brief(df: pd.DataFrame, cols=None, max_rows=8) -> dict:
    """Abbreviated table for evidence samples."""
    cols = cols or [
        "p_id", "hh_id", "alter", "kind", "p_id_elternteil_1", "p_id_elternteil_2",
        "p_id_ehepartner", "p_id_einstandspartner", "bruttolohn_m", "eink_selbst_m",
        "kapitaleink_brutto_m", "eink_vermietung_m", "vermögen_bedürft", "rentner",
        "bruttokaltmiete_m_hh",
    ]
    cols = [c for c in cols if c in df.columns]
    return {"n_rows": int(len(df)), "columns": {c: df[c].head(max_rows).tolist() for c in cols}}


# --------------------------------------------------------------------------------------
# closed components and minimisation (quick-tier replacement for Hypothesis shrinking)
# --------------------------------------------------------------------------------------


def components(df: pd.DataFrame) -> list[list[int]]:
    """Row positions grouped into sets closed under household membership and pointers."""
    n = len(df)
    parent = list(range(n))

    def find(x):
        while parent[x] != x:
            parent[x] = parent[parent[x]]
            x = parent[x]
        return x

    def union(a, c):
        ra, rc = find(a), find(c)
        if ra != rc:
            parent[rc] = ra

    pos = {int(p): i for i, p in enumerate(df["p_id"].tolist())}
    first_in_hh = {}
    for i, h in enumerate(df["hh_id"].tolist()):
        if h in first_in_hh:
            union(first_in_hh[h], i)
        else:
            first_in_hh[h] = i
    for c in POINTER_COLS:
        if c in df.columns:
            for i, v in enumerate(df[c].tolist()):
                if v >= 0 and int(v) in pos:
                    union(i, pos[int(v)])
    groups = {}
    for i in range(n):
        groups.setdefault(find(i), []).append(i)
    return list(groups.values())


def minimize_df(df: pd.DataFrame, still_fails, max_calls=24) -> pd.DataFrame:
    """Greedy removal of closed components while `still_fails(df)` stays true."""
    calls = 0
    changed = True
    while changed and calls < max_calls:
        changed = False
        comps = components(df)
        if len(comps) <= 1:
            break
        for comp in sorted(comps, key=len, reverse=True):
            keep = [i for i in range(len(df)) if i not in set(comp)]
            cand = df.iloc[keep].reset_index(drop=True)
            calls += 1
            try:
                ok = still_fails(cand)
            except Exception:  # noqa: BLE001
                ok = False
            if ok:
                df = cand
                changed = True
                break
            if calls >= max_calls:
                break
    return df


def replicate(df: pd.DataFrame, k: int, seed: int = 0) -> pd.DataFrame:
    """k copies of a (closed) population in one table, every copy with fresh, densely packed but
    *unsorted* p_id / hh_id (pointer columns remapped consistently).  Used for the large-table
    strata: code paths that depend on the number of rows / groups."""
    n = len(df)
    rng = np.random.RandomState(seed)
    new_p = rng.permutation(k * n)
    hhs = sorted(set(df["hh_id"].tolist()))
    new_h = rng.permutation(k * len(hhs))
    pos = {int(p): i for i, p in enumerate(df["p_id"].tolist())}
    hpos = {h: i for i, h in enumerate(hhs)}
    parts = []
    for c in range(k):
        d = df.copy()
        pm = {p: int(new_p[c * n + i]) for p, i in pos.items()}
        d["p_id"] = [pm[int(p)] for p in df["p_id"]]
        d["hh_id"] = [int(new_h[c * len(hhs) + hpos[h]]) for h in df["hh_id"]]
        for col in POINTER_COLS:
            if col in d.columns:
                d[col] = [pm[int(v)] if v >= 0 else int(v) for v in df[col]]
        parts.append(d)
    out = pd.concat(parts, ignore_index=True)
    for col in ["p_id", "hh_id", *[c for c in POINTER_COLS if c in out.columns]]:
        out[col] = out[col].astype("int64")
    return out
