"""Entry point:  python -m vf.runner C08 [--tier quick|thorough] [--replay FILE]

Exit codes: 0 held on everything explored (KNOWN-FINDING lines may be printed),
1 + `VIOLATION property=<id> replay=<path>` for a violation not listed in
known_findings.json, 2 harness error (never a verdict).
"""
from __future__ import annotations

import argparse
import importlib
import json
import os
import sys
import time
import traceback


def main(argv=None):
    os.environ.setdefault("PYTHONHASHSEED", "0")
    ap = argparse.ArgumentParser()
    ap.add_argument("prop")
    ap.add_argument("--tier", default=os.environ.get("VERIF_TIER") or "quick",
                    choices=["quick", "thorough"])
    ap.add_argument("--replay", default=None)
    ap.add_argument("--seed", type=int, default=None)
    args = ap.parse_args(argv)
    seed = args.seed if args.seed is not None else int(os.environ.get("VERIF_SEED") or "1")
    prop = args.prop.upper()
    import warnings

    warnings.simplefilter("ignore")
    try:
        mod = importlib.import_module(f"vf.checks.{prop.lower()}")
    except ImportError:
        traceback.print_exc()
        print(f"HARNESS-ERROR: no check module for {prop}", file=sys.stderr)
        return 2
    t0 = time.time()
    try:
        if args.replay:
            with open(args.replay, encoding="utf-8") as fh:
                payload = json.load(fh)
            fails = mod.replay(payload["case"])
            from .core import load_known

            known = load_known(prop)
            new = [f for f in fails if f.key not in known]
            for f in fails:
                tag = "KNOWN-FINDING:" if f.key in known else "VIOLATION"
                if tag == "VIOLATION":
                    print(f"VIOLATION property={prop} replay={args.replay}")
                    print(f"  key={f.key}: {f.what}")
                else:
                    print(f"KNOWN-FINDING: property={prop} {f.key} {f.what}")
            if not fails:
                print(f"OK replay property={prop}: the stored case satisfies the oracle")
            return 1 if new else 0
        return mod.run(tier=args.tier, seed=seed, t0=t0)
    except Exception:  # noqa: BLE001
        traceback.print_exc()
        print("HARNESS-ERROR: unexpected exception in the harness", file=sys.stderr)
        return 2


if __name__ == "__main__":
    sys.exit(main())
