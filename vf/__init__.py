"""Property-based testing / fuzzing machinery for the GETTSIM properties C01..C20.

Run with /venv/bin/python from /verif:  python -m vf.runner C08 --tier quick
"""
import os
import sys

_HERE = os.path.dirname(os.path.abspath(__file__))
VERIF_DIR = os.path.dirname(_HERE)
_DEPS = os.path.join(VERIF_DIR, ".deps")
# Optional tooling (jsonschema, atheris) lives in /verif/.deps; appended *last* so it can
# never shadow a package of /venv.
if os.path.isdir(_DEPS) and _DEPS not in sys.path:
    sys.path.append(_DEPS)
