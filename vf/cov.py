"""Cheap line coverage of the rule modules via sys.monitoring (Python 3.12).

Used for *measurement* only (which parameter reads / rule lines the generated populations
actually executed), never as a verdict.
"""
from __future__ import annotations

import ast
import inspect
import sys

_TOOL = 3  # sys.monitoring tool id (free slot)
_PREFIX = "/_gettsim/"
_hits: set = set()
_active = False


def _on_line(code, lineno):
    fn = code.co_filename
    if _PREFIX in fn:
        _hits.add((fn, lineno))
    return sys.monitoring.DISABLE


def start():
    global _active
    if _active:
        return
    mon = sys.monitoring
    try:
        mon.use_tool_id(_TOOL, "vf-cov")
    except ValueError:
        return
    mon.register_callback(_TOOL, mon.events.LINE, _on_line)
    mon.set_events(_TOOL, mon.events.LINE)
    _active = True


def reset():
    _hits.clear()
    if _active:
        sys.monitoring.restart_events()


def hits():
    return set(_hits)


def stop():
    global _active
    if not _active:
        return
    mon = sys.monitoring
    mon.set_events(_TOOL, 0)
    mon.register_callback(_TOOL, mon.events.LINE, None)
    mon.free_tool_id(_TOOL)
    _active = False


def _unwrap(f):
    while hasattr(f, "__wrapped__"):
        f = f.__wrapped__
    return f


def param_reads(func):
    """[(path, filename, lineno, end_lineno)] of `<g>_params[...][...]` subscripts with constant keys."""
    func = _unwrap(func)
    try:
        src_lines, first = inspect.getsourcelines(func)
    except (OSError, TypeError):
        return []
    import textwrap

    tree = ast.parse(textwrap.dedent("".join(src_lines)))
    fn = func.__code__.co_filename
    out = []
    seen_inner = set()
    for node in ast.walk(tree):
        if isinstance(node, ast.Subscript) and id(node) not in seen_inner:
            path = []
            cur = node
            while isinstance(cur, ast.Subscript):
                seen_inner.add(id(cur.value))
                sl = cur.slice
                path.append(sl.value if isinstance(sl, ast.Constant) else "*")
                cur = cur.value
            if isinstance(cur, ast.Name) and cur.id.endswith("_params"):
                path.append(cur.id)
                out.append((".".join(str(p) for p in reversed(path)), fn,
                            node.lineno + first - 1, node.end_lineno + first - 1))
    return out


def executable_lines(func):
    func = _unwrap(func)
    code = func.__code__
    lines = {ln for (_, _, ln) in code.co_lines() if ln is not None}
    lines.discard(code.co_firstlineno)
    return code.co_filename, lines
