"""Per-process cache of policy environments and DAG helpers.

Everything here calls the code under test through its public entry points
(`set_up_policy_environment`, `compute_taxes_and_transfers`) or through the very helper
functions the interface itself uses to build the DAG (`load_and_check_functions`,
`dags.dag.create_dag`) -- the latter only to *enumerate* nodes, never as an oracle.
"""
from __future__ import annotations

import copy
import datetime
import functools
import inspect
import os
import warnings

import dags
import numpy as np
import pandas as pd

from _gettsim.config import DEFAULT_TARGETS, SUPPORTED_GROUPINGS, TYPES_INPUT_VARIABLES
from _gettsim.functions_loader import load_and_check_functions
from _gettsim.interface import compute_taxes_and_transfers
from _gettsim.policy_environment import set_up_policy_environment

GROUP_SUFFIXES = tuple(SUPPORTED_GROUPINGS)


def to_date(d) -> datetime.date:
    if isinstance(d, datetime.date):
        return d
    return datetime.date.fromisoformat(str(d))


@functools.lru_cache(maxsize=24)
def _env_cached(iso: str):
    return set_up_policy_environment(datetime.date.fromisoformat(iso))


def policy_env(d):
    """(params, functions) for date d; cached per process.  Callers must not mutate."""
    return _env_cached(to_date(d).isoformat())


def fresh_env(d):
    return set_up_policy_environment(to_date(d))


def simulate(data, d=None, *, env=None, targets=None, rounding=True, debug=False,
             check_minimal_specification="ignore", aggregate_by_group_specs=None,
             aggregate_by_p_id_specs=None, quiet=True):
    if env is not None:
        params, functions = env
    else:
        # a private deep copy of the cached parameters for every call (0.7 ms): a rule that writes into
        # its parameter dictionary can then not hide behind an earlier call that already wrote the same
        params, functions = policy_env(d)
        params = copy.deepcopy(params)
    with warnings.catch_warnings():
        if quiet:
            warnings.simplefilter("ignore")
        return compute_taxes_and_transfers(
            data=data,
            params=params,
            functions=functions,
            targets=targets,
            rounding=rounding,
            debug=debug,
            check_minimal_specification=check_minimal_specification,
            aggregate_by_group_specs=aggregate_by_group_specs,
            aggregate_by_p_id_specs=aggregate_by_p_id_specs,
        )


def build_dag(functions, targets, data_cols):
    """The DAG the interface would build for these targets / data columns."""
    not_over, over = load_and_check_functions(
        functions_raw=functions,
        targets=list(targets),
        data_cols=list(data_cols),
        aggregate_by_group_specs={},
        aggregate_by_p_id_specs={},
    )
    dag = dags.dag.create_dag(functions=not_over, targets=list(targets))
    return dag, not_over, over


@functools.lru_cache(maxsize=24)
def _dag_info_cached(iso: str, targets_key: tuple, data_cols_key: tuple):
    _, functions = policy_env(iso)
    dag, not_over, _ = build_dag(functions, targets_key, data_cols_key)
    nodes = list(dag.nodes)
    roots = sorted(n for n in nodes if dag.in_degree(n) == 0)
    param_roots = sorted(n for n in roots if n.endswith("_params"))
    computed = sorted(n for n in nodes if n in not_over)
    return {
        "dag": dag,
        "nodes": nodes,
        "roots": [r for r in roots if r not in param_roots and r not in not_over],
        "param_roots": param_roots,
        "computed": computed,
        "functions": not_over,
    }


SUPPORTED_START = datetime.date(2015, 1, 1)


def _battery(d):
    """A few deterministic valid populations used to screen which nodes can be computed at an early date."""
    from hypothesis import HealthCheck, given, seed, settings

    from . import popgen

    pops = []

    @seed(20150101)
    @settings(max_examples=8, deadline=None, database=None, suppress_health_check=list(HealthCheck))
    @given(popgen.populations(d, mode="branch", max_households=3))
    def body(pop):
        pops.append(pop.df)

    body()
    return pops


@functools.lru_cache(maxsize=64)
def _base_targets_cached(iso: str):
    """Early dates (before 2015 the system is not complete: C08 starts there): the rules active at the
    date whose ancestors are documented inputs / loaded parameter groups only (static screen) and that
    a battery of valid populations can be simulated for (dynamic screen; e.g. Elterngeld before 2011
    raises NotImplementedError).  This only delimits the *domain* of the metamorphic checks."""
    import traceback

    import networkx as nx

    d = to_date(iso)
    params, functions = policy_env(iso)
    cols = tuple(sorted(TYPES_INPUT_VARIABLES))
    cand = sorted(functions)
    while True:
        try:
            dag, not_over, _ = build_dag(functions, tuple(cand), cols)
            break
        except ValueError as e:  # "targets have no corresponding function" cannot happen for rule names
            raise
    ok = []
    for n in cand:
        if n not in dag:
            continue
        anc = nx.ancestors(dag, n) | {n}
        roots = [a for a in anc if dag.in_degree(a) == 0 and a not in not_over]
        if all((r in TYPES_INPUT_VARIABLES) or (r.endswith("_params") and r[: -len("_params")] in params) for r in roots):
            ok.append(n)
    ok = set(ok)
    pops = _battery(d)
    for _ in range(60):
        culprit = None
        for df in pops:
            try:
                simulate(df, d, targets=sorted(ok))
            except Exception as e:  # noqa: BLE001
                names = [f.name for f in traceback.extract_tb(e.__traceback__) if "/_gettsim/" in f.filename]
                by_def = {getattr(functions[nm], "__name__", nm): nm for nm in ok if nm in functions}
                culprit = next((by_def.get(nm, nm) for nm in reversed(names) if by_def.get(nm, nm) in ok), None)
                if culprit is None:
                    # raised outside a rule (e.g. a missing rounding specification): the longest node name
                    # mentioned in the message
                    culprit = max((nm for nm in ok if nm in str(e)), key=len, default=None)
                if culprit is None:
                    if os.environ.get("VF_DEBUG"):
                        print("screen: no culprit", iso, type(e).__name__, str(e)[:300], names[-4:])
                    return ()
                break
        if culprit is None:
            break
        ok -= nx.descendants(dag, culprit) | {culprit}
    return tuple(sorted(ok))


def base_targets(d):
    """DEFAULT_TARGETS from 2015-01-01 on (what C08 is about); before that date every rule that can be
    computed from documented inputs (see _base_targets_cached)."""
    d = to_date(d)
    if d >= SUPPORTED_START:
        return tuple(DEFAULT_TARGETS)
    return _base_targets_cached(d.isoformat())


def dag_info(d, targets=None, data_cols=None):
    targets = tuple(sorted(base_targets(d) if targets is None else targets))
    data_cols = tuple(sorted(TYPES_INPUT_VARIABLES if data_cols is None else data_cols))
    return _dag_info_cached(to_date(d).isoformat(), targets, data_cols)


def all_nodes(d, data_cols=None):
    """Computed (non-data) nodes of the DAG of DEFAULT_TARGETS at date d."""
    return list(dag_info(d, None, data_cols)["computed"])


def required_inputs(d):
    """Data columns that the DAG of DEFAULT_TARGETS needs at date d."""
    return list(dag_info(d)["roots"])


def group_of(name: str):
    for g in GROUP_SUFFIXES:
        if name.endswith(f"_{g}"):
            return g
    return None


def raw_function(functions, name):
    f = functions[name]
    return f


def param_args(f):
    return [a for a in inspect.signature(f).parameters if a.endswith("_params")]
