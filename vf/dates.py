"""Change-date calculus (DESIGN.md 2.1).

CD = every YYYY-MM-DD key of every parameter / rounding entry in the raw YAML files,
every start_date and end_date+1 of every dated rule, every 1 January, and d+1y for keys of
parameters with `access_different_date: vorjahr`.  A *stratum* is the interval between
two consecutive change dates.  Everything is read from the raw files / decorators, not
from the loader under test.
"""
from __future__ import annotations

import datetime
import functools
import hashlib

import yaml

from _gettsim.config import INTERNAL_PARAMS_GROUPS, RESOURCE_DIR

ONE_DAY = datetime.timedelta(days=1)
SUPPORTED_START = datetime.date(2015, 1, 1)


@functools.lru_cache(maxsize=None)
def raw_yaml(group: str) -> dict:
    text = (RESOURCE_DIR / "parameters" / f"{group}.yaml").read_text(encoding="utf-8")
    return yaml.safe_load(text)


def _plus_one_year(d: datetime.date) -> datetime.date:
    try:
        return d.replace(year=d.year + 1)
    except ValueError:
        return d.replace(year=d.year + 1, month=3, day=1)


@functools.lru_cache(maxsize=None)
def yaml_dates() -> tuple:
    out = set()
    for g in INTERNAL_PARAMS_GROUPS:
        raw = raw_yaml(g)
        for pname, p in raw.items():
            if pname == "rounding":
                for spec in p.values():
                    out |= {k for k in spec if isinstance(k, datetime.date)}
                continue
            if not isinstance(p, dict):
                continue
            keys = {k for k in p if isinstance(k, datetime.date)}
            out |= keys
            if p.get("access_different_date") == "vorjahr":
                out |= {_plus_one_year(k) for k in keys}
                # 29 Feb of leap years: the prior-year look-up switches from 28 Feb
                # rules; covered by always including leap days in C07
    return tuple(sorted(out))


@functools.lru_cache(maxsize=None)
def rule_dates() -> tuple:
    import _gettsim.functions  # noqa: F401  (executes all decorators)
    from _gettsim.shared import TIME_DEPENDENT_FUNCTIONS

    out = set()
    for fs in TIME_DEPENDENT_FUNCTIONS.values():
        for f in fs:
            s, e = f.__info__["start_date"], f.__info__["end_date"]
            if s.year > 1:
                out.add(s)
            if e.year < 9999:
                out.add(e + ONE_DAY)
    return tuple(sorted(out))


def last_yaml_date() -> datetime.date:
    return max(yaml_dates())


@functools.lru_cache(maxsize=None)
def change_dates(lo: datetime.date = datetime.date(1980, 1, 1), hi: datetime.date | None = None) -> tuple:
    hi = hi or _plus_one_year(last_yaml_date())
    out = set(yaml_dates()) | set(rule_dates())
    out |= {datetime.date(y, 1, 1) for y in range(lo.year, hi.year + 1)}
    return tuple(sorted(d for d in out if lo <= d <= hi))


def strata(lo: datetime.date = SUPPORTED_START, hi: datetime.date | None = None):
    """[(first_day, last_day)] of every stratum inside [lo, hi]."""
    hi = hi or last_yaml_date()
    cds = [d for d in change_dates() if lo <= d <= hi]
    if not cds or cds[0] != lo:
        cds = [lo, *cds]
    out = []
    for i, d in enumerate(cds):
        end = (cds[i + 1] - ONE_DAY) if i + 1 < len(cds) else max(hi, d)
        out.append((d, end))
    return out


def stratum_days(stratum, positions=("first", "last", "interior")):
    first, last = stratum
    days = []
    if "first" in positions:
        days.append(first)
    if "last" in positions and last != first:
        days.append(last)
    if "interior" in positions and (last - first).days >= 2:
        days.append(first + datetime.timedelta(days=(last - first).days // 2))
    return days


def leap_days(lo_year=1980, hi_year=None):
    hi_year = hi_year or last_yaml_date().year + 1
    return [datetime.date(y, 2, 29) for y in range(lo_year, hi_year + 1)
            if y % 4 == 0 and (y % 100 != 0 or y % 400 == 0)]


def sub_seed(seed: int, *parts) -> int:
    h = hashlib.sha256(("|".join([str(seed), *map(str, parts)])).encode()).hexdigest()
    return int(h[:8], 16)


def pick(seq, k: int, seed: int, *parts):
    """Deterministic seed-dependent subset of size k (order preserved)."""
    seq = list(seq)
    if k >= len(seq):
        return seq
    ranked = sorted(range(len(seq)), key=lambda i: sub_seed(seed, *parts, i))
    keep = sorted(ranked[:k])
    return [seq[i] for i in keep]
