"""Column comparison semantics (DESIGN.md 2.4).

Two result tables are aligned on p_id (never on position).  `*_id` columns are compared as
partitions; int / bool / datetime columns exactly; float columns with
|a-b| <= rtol * max(1, |a|, |b|) and NaN == NaN.  dtype kind is reported separately.
"""
from __future__ import annotations

import numpy as np
import pandas as pd

RTOL = 1e-9
ID_COLS = ("hh_id", "wthh_id", "fg_id", "bg_id", "eg_id", "ehe_id", "sn_id")


def same_partition(a, b) -> bool:
    """Mutual functional dependency between two id vectors."""
    a = a.tolist() if isinstance(a, np.ndarray) else list(a)
    b = b.tolist() if isinstance(b, np.ndarray) else list(b)
    if len(a) != len(b):
        return False
    fwd, bwd = {}, {}
    for x, y in zip(a, b):
        if fwd.setdefault(x, y) != y or bwd.setdefault(y, x) != x:
            return False
    return True


def values_equal(a, b, rtol=RTOL, exact=False):
    """Boolean mask (per row) of equality under the comparison semantics."""
    a = np.asarray(a)
    b = np.asarray(b)
    if a.dtype.kind in "fc" or b.dtype.kind in "fc":
        af = a.astype("float64")
        bf = b.astype("float64")
        both_nan = np.isnan(af) & np.isnan(bf)
        if exact:
            eq = (af == bf) | both_nan
        else:
            with np.errstate(invalid="ignore"):
                tol = rtol * np.maximum(1.0, np.maximum(np.abs(af), np.abs(bf)))
                eq = (np.abs(af - bf) <= tol) | both_nan | (af == bf)
        return eq
    if a.dtype.kind == "M" or b.dtype.kind == "M":
        return a.astype("datetime64[ns]") == b.astype("datetime64[ns]")
    return a == b


def compare_frames(base: pd.DataFrame, other: pd.DataFrame, *, key_base, key_other,
                   columns=None, rtol=RTOL, exact=False, check_dtype=True,
                   id_cols_as_partitions=True):
    """Differences between two result tables whose rows are identified by p_id vectors.

    key_base / key_other: the p_id of each row of base / other.  Rows of `other` are
    re-ordered to the order of `base`; p_ids missing in `other` are an error of the caller.
    Returns a list of dicts {column, kind: 'value'|'dtype'|'partition'|'missing', ...}.
    """
    key_base = np.asarray(key_base)
    key_other = np.asarray(key_other)
    pos = {int(k): i for i, k in enumerate(key_other.tolist())}
    idx = np.array([pos[int(k)] for k in key_base.tolist()], dtype=int)
    diffs = []
    cols = columns if columns is not None else [c for c in base.columns]
    for c in cols:
        if c not in other.columns:
            diffs.append({"column": c, "kind": "missing"})
            continue
        a = base[c].to_numpy()
        b = other[c].to_numpy()[idx]
        if id_cols_as_partitions and c.endswith("_id") and c != "p_id" and not c.startswith("p_id"):
            if not same_partition(a, b):
                diffs.append({"column": c, "kind": "partition",
                              "base": a.tolist()[:12], "other": b.tolist()[:12]})
            continue
        if check_dtype and a.dtype.kind != b.dtype.kind:
            diffs.append({"column": c, "kind": "dtype", "base": str(a.dtype), "other": str(b.dtype)})
        eq = values_equal(a, b, rtol=rtol, exact=exact)
        if not bool(np.all(eq)):
            bad = np.flatnonzero(~eq)
            i = int(bad[0])
            diffs.append({"column": c, "kind": "value", "n_rows": int(len(bad)),
                          "p_id": int(key_base[i]), "base": _py(a[i]), "other": _py(b[i])})
    return diffs


def _py(v):
    if isinstance(v, np.generic):
        v = v.item()
    return v if isinstance(v, (int, float, bool, str)) or v is None else str(v)


def frame_digest(df: pd.DataFrame) -> str:
    """Canonical digest of a result frame (column names, dtypes, bytes)."""
    import hashlib

    h = hashlib.sha256()
    for c in sorted(df.columns):
        a = df[c].to_numpy()
        h.update(c.encode())
        h.update(str(a.dtype).encode())
        if a.dtype.kind == "O":
            h.update(repr(a.tolist()).encode())
        else:
            h.update(np.ascontiguousarray(a).tobytes())
    return h.hexdigest()[:24]
