#!/venv/bin/python
"""Coverage-guided campaign for C09 (optional, thorough tier): bytes -> FuzzedDataProvider ->
program grammar (vf.progen) -> the same oracle as sub-check 2 of vf.checks.c09, with
`_gettsim.vectorization` instrumented.

    cd /verif && /venv/bin/python -m vf.fuzz.c09_fuzz -runs=20000 -seed=1 [corpus_dir]

A silent difference whose root cause is not a known finding aborts the campaign (libFuzzer
saves the input); known constructs are counted and skipped so that the search continues.
"""
from __future__ import annotations

import os
import sys

_HERE = os.path.dirname(os.path.abspath(__file__))
sys.path.insert(0, os.path.dirname(os.path.dirname(_HERE)))

import vf  # noqa: E402,F401  (adds /verif/.deps)
import atheris  # noqa: E402

with atheris.instrument_imports(include=["_gettsim.vectorization"]):
    import _gettsim.vectorization  # noqa: F401

from vf import core, progen  # noqa: E402
from vf.checks import c09  # noqa: E402

KNOWN = set(core.load_known("C09"))
STATS = {"runs": 0, "known": 0, "agree": 0, "loud": 0}
STRATA = [("core",), ("core", "mixed"), ("core", "augassign-no-else"), ("core", "literal-reduction"), ("core", "outside")]


def one_input(data: bytes):
    fdp = atheris.FuzzedDataProvider(data)
    strata = STRATA[fdp.ConsumeIntInRange(0, len(STRATA) - 1)]
    try:
        src, tags = progen.program(progen.BytesChooser(fdp), strata)
    except RecursionError:
        return
    seed = fdp.ConsumeIntInRange(0, 2**31 - 1)
    case = {"src": src, "tags": tags, "strata": list(strata), "seed": seed}
    fails, status, _ = c09.check_program(case)
    STATS["runs"] += 1
    if status.startswith("loud"):
        STATS["loud"] += 1
    elif status == "agree":
        STATS["agree"] += 1
    for f in fails:
        if f.key in KNOWN:
            STATS["known"] += 1
        else:
            print(f"VIOLATION property=C09 key={f.key}\n{f.what}", flush=True)
            raise AssertionError(f.key)


def main():
    atheris.Setup(sys.argv, one_input)
    try:
        atheris.Fuzz()
    finally:
        print("c09_fuzz stats:", STATS, flush=True)


if __name__ == "__main__":
    main()
