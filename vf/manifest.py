"""Regenerates /verif/MANIFEST.json from the table below:  python -m vf.manifest"""
from __future__ import annotations

import json
import os

from . import VERIF_DIR

PY = "/venv/bin/python"

# property -> (level, technique, level text, level note, design section)
CHECKS = {
    "C01": (
        "exploration",
        "property-based testing (Hypothesis): metamorphic relation simulate(pi(P)) == pi(simulate(P)) on all DAG nodes; plus exhaustive enumeration of all row orders of 12 small pointer shapes",
        "Generated valid populations x drawn permutations / index labellings (the permuted run also with debug=True and lossless dtype variants) at every date stratum >= 2015 and sampled strata of 2005-2014; both orders are really simulated for all ~320 nodes and compared on p_id (ids as partitions, dtype kind included). A finite block enumerates every row order of 12 hand-picked pointer shapes.",
        "Valid populations per DESIGN.md 2.2; float tolerance 1e-9 relative for re-ordered additions.",
        "3/C01",
    ),
    "C02": (
        "exploration",
        "property-based testing (Hypothesis): differential simulate(A++B)|A == simulate(A) and metamorphic relabelling of ids, all DAG nodes",
        "Two generated closed populations with disjoint ids are simulated alone and interleaved; A is also simulated under an injective relabelling of p_id/hh_id. All nodes compared (ids as partitions).",
        "A keeps its internal row order in the joint table (row-order dependence is C01). Id bounds 10^6 / 10^4.",
        "3/C02",
    ),
    "C03": (
        "exploration",
        "property-based testing (Hypothesis) against a reference evaluation: raw scalar rule applied row by row to the production parent columns; dtype vs declared type",
        "For every generated population and every scalar rule active at the date the production column is compared exactly with the raw Python rule evaluated per row, and its dtype kind with the return annotation.",
        "The raw rules are the reference; aggregation / conversion / grouping nodes are covered by C11-C13.",
        "3/C03",
    ),
    "C04": (
        "exploration",
        "property-based testing (Hypothesis): differential between target subsets / options (debug, minimal specification, dict vs DataFrame, extra columns)",
        "A drawn target subset (incl. derived time-unit variants and automatic group sums) with drawn options is compared column by column with the all-node run of the same population; shape and column set of the result are checked.",
        "Baseline is another real execution (all nodes + S).",
        "3/C04",
    ),
    "C05": (
        "exploration",
        "property-based testing (Hypothesis): round trip - feed a node's own production column back as data, compare all other nodes, require the overlap warning",
        "For drawn nodes of the DAG (every node over a run) the production column is supplied as data; the second run must not raise, must warn for overridden rules and must reproduce every other node. Rules are also supplied with OTHER values and compared with replacing the rule by a user rule returning them (differential), so a consumer that ignores the supplied column is seen.",
        "The supplied column has exactly the dtype pandas returned. For supplied derived columns (unit variants, automatic sums) a difference that one ulp of the supplied values alone produces is counted as ill-conditioned, not reported.",
        "3/C05",
    ),
    "C06": (
        "exploration",
        "property-based testing (Hypothesis): generated reforms (scaled group, single leaf, deep copies, cloned rule, user function f+1, rounding base) with a DAG-derived locality oracle (bit-identical outside the dependants) and an aliasing scan of the parameter dictionary",
        "Each generated reform is simulated next to the baseline for all nodes; every node that does not depend on the reformed group / rule must be bit-identical, copies and clones must change nothing; a private params object that was simulated and then edited in place must behave like its deep copy; additionally no mutable object may be shared between two parameter groups or two environments.",
        "Dependants are computed from the code's own DAG; reformed runs that raise are skipped and counted.",
        "3/C06",
    ),
    "C09": (
        "exploration",
        "differential testing of make_vectorizable: (1) all ~400 internal rules on generated argument arrays vs the scalar original, (2) Hypothesis grammar of programs in the documented restricted style (and outside it) vs the scalar original, (3) side-effect check (module attribute, later simulations); root cause by repair substitution",
        "The array form produced from every internal rule and from thousands of generated programs is called on arrays and compared position by position with the scalar original; a loud failure is accepted, a silent difference is a violation keyed by (function, construct).",
        "numpy backend only. Known findings (else-less augmented assignment, reductions of literals, in-place update of an aliased argument) are enshrined by test_vectorization.py and listed in known_findings.json by construct and by function name.",
        "3/C09",
    ),
    "C10": (
        "exploration",
        "property-based testing (Hypothesis) with the rounding specification taken from the reference YAML model: natural values via the raw scalar rule, injected values on / half-way between / next to grid points via a probe rule, fault injection for missing specifications",
        "For every rounded rule at sampled strata the rounded column is checked against the unrounded scalar value in exact rational arithmetic (grid, direction, offset, error < one step); probe rules put values exactly on the grid and half-way; removing the spec (or base / direction) must raise KeyError; week/day variants must be exact conversions of the rounded column.",
        "Specs come from yaml.safe_load via vf.refmodel.yaml_env, not from the environment under test.",
        "3/C10",
    ),
    "C11": (
        "exploration",
        "property-based testing (Hypothesis) against a dictionary-based reference model: unit level (all aggregation functions, dtypes, sparse unsorted ids, negative pointers) and interface level (automatic sums, user specs, name collisions / precedence)",
        "Generated columns / id vectors / pointer vectors are aggregated by the code and by a pure-Python reference (math.fsum); dtype rejections and not-implemented pointer aggregations are checked; at interface level user specs, built-in specs and automatic sums are compared with the reference on the run's own columns.",
        "numpy backend; float sums within 1e-9 relative (+1e-12 of the sum of absolute summands).",
        "3/C11",
    ),
    "C12": (
        "exploration",
        "exhaustive enumeration (multiprocessing) of all pointer structures of <= 3 persons and (a seed-dependent sample: 1/40 in quick, 1/3 in thorough) 4 persons x all row orders, both placements of a parent in the two parent columns, plus Hypothesis-generated populations, against a reference model of the unit definitions; nesting invariants",
        "The partitions fg/bg/eg/ehe/sn computed by the grouping functions are compared with a union-find reference written from hh_concepts.md for every enumerated structure and row order; random populations go through the interface and add wthh_id and the nesting / no-collision invariants.",
        "Structures on which the documentation is silent are only checked for the invariants (counted as under-specified).",
        "3/C12",
    ),
    "C14": (
        "exploration",
        "stateful property-based testing (Hypothesis RuleBasedStateMachine) over API histories with a fresh-interpreter differential oracle, purity snapshots of data / params / functions and a module-attribute invariant",
        "Generated histories of set-up, simulate (also with user aggregation specs that replace built-in ones, and edit-the-same-table-and-simulate-again), user-side reforms, rewrites into array form, load_functions_for_date and failing calls, on dates >= 2015 and of 2009-2014; after every simulate the caller's objects must be unchanged, the call must be repeatable and its result must equal the result of the same call in a fresh Python process.",
        "Synchronous API only; histories of <= 8-12 steps are sampled.",
        "3/C14",
    ),
    "C18": (
        "exploration",
        "exhaustive enumeration of every (parameter file, piecewise parameter, change date, interval) with exact Fraction evaluation of the schedule rebuilt from raw YAML vs piecewise_polynomial at thresholds +-2 ulp / interior / magnitudes / Hypothesis-drawn arguments; exact per-interval conditions for the income-tax and solidarity-surcharge schedules",
        "All 47 schedule versions are enumerated; evaluation is compared with exact rational arithmetic incl. the rates_multiplier path; zero below the allowance, continuity, monotonicity, convexity and the top-rate bound are decided exactly on the coefficients and cross-checked on the production tariff functions.",
        "'All real arguments' is reduced to exact per-interval conditions (degree <= 2) plus sampling.",
        "3/C18",
    ),
    "C20": (
        "fault_enumeration",
        "fault injection over generated valid populations (15 fault classes x eligible rows/columns, pairs of faults; exhaustive per population in the thorough tier) with a must-raise oracle; metamorphic lossless-dtype variants; Hypothesis unit-level conversion round trip",
        "Every enumerated fault (and pairs) injected into a valid population must make compute_taxes_and_transfers raise; losslessly convertible dtype variants must reproduce all nodes and be announced by a warning naming exactly the converted columns; unit-level conversions either raise ValueError or preserve every value.",
        "Rejection = any exception; targets = DEFAULT_TARGETS.",
        "3/C20",
    ),
    "C13": (
        "exploration",
        "property-based testing (Hypothesis): algebraic factor laws between the four unit variants of every time-suffixed node, commutation with group sums against a reference sum, metamorphic input-unit swap with bit-identical feedback, unit-level converter round trips on generated floats",
        "All four unit variants of drawn flow nodes are requested together and compared with the documented factors; automatic group sums are compared with a reference math.fsum per group; inputs are supplied in another unit; the twelve converters are checked on generated floats.",
        "Factors 12, 365.25/7, 365.25; tolerances 1e-12 (conversions) / 1e-9 (simulations).",
        "3/C13",
    ),
    "C15": (
        "exploration",
        "property-based testing (Hypothesis): invariant 'one value per group' on every group-suffixed node of the DAG, populations with per-person variation; root cause = most upstream varying node",
        "Every node with a group suffix is grouped by the matching id column of the same run and must be constant; the evidence counts (stratum, node) pairs for which members really differed in an individual-level ancestor input.",
        "Two design-level findings are listed in known_findings.json and suppressed by node name only.",
        "3/C15",
    ),
    "C16": (
        "exploration",
        "property-based testing (Hypothesis) with an extreme-value generator: finiteness of all float nodes, non-negativity of default targets, table of statutory caps written from named parameters / before-after node pairs",
        "Extreme populations (zero and 10^4..2*10^6 incomes and wealth, rental losses, ages 0-100, up to ten children) at every stratum; invariants checked on all nodes of one run.",
        "Caps are sound (never tighter than the statute as implemented in the documented parameters), some are loose.",
        "3/C16",
    ),
    "C17": (
        "exploration",
        "property-based testing (Hypothesis): wage sweeps of generated households (one simulation per sweep) with per-person exclusivity invariants and the Kinderzuschlag coverage condition; regime sequences measured",
        "A drawn household is copied along a wage grid so that the sweep crosses the break-even points of the priority checks; per person the exclusivity of ALG II / Wohngeld / Kinderzuschlag / Grundsicherung, bg-within-wthh and the KiZ coverage condition are checked.",
        "Invariants are evaluated on nodes of the same run.",
        "3/C17",
    ),
    "C19": (
        "exploration",
        "property-based testing (Hypothesis) over configurations x dense wage sweeps incl. exact statutory boundaries +-0.01: monotonicity, zero for marginal employment, constancy above ceilings, continuity at the transition-zone end, employee+employer=total",
        "For each drawn configuration (east/west, children, age, grid step, pension next to the wage) and stratum from 2003-04-01 on a sweep of up to 18000 wages is simulated in one table and the shape invariants are checked for the four employee contributions.",
        "Employee not self-employed / privately insured; with a pension, zero-for-marginal is relative to the contribution at wage 0.",
        "3/C19",
    ),
    "C07": (
        "exploration",
        "differential testing against an independent reference model of the YAML semantics (exact Fraction schedules) over enumerated change dates, their neighbours, leap days and seeded random days; decorator-derived oracle for rules; within-stratum constancy",
        "Every parameter leaf, rounding spec, schedule coefficient and the rule dictionary of set_up_policy_environment(d) is compared with a reference resolver written from GEP 3/5 over yaml.safe_load, on change dates +-1 day, leap days and random days from 1980 on; before each further set-up everything mutable in the previously returned environment is overwritten in place (history).",
        "The reference model is a second reading of the documentation; disagreements are triaged against GEP 3 before being reported.",
        "3/C07",
    ),
    "C08": (
        "exploration",
        "property-based testing (Hypothesis): generated valid populations x every date stratum; no-crash + structural oracle; sys.monitoring coverage measurement",
        "Generated-input search: every stratum between change dates >= 2015 is simulated with generated valid populations "
        "(branch-seeking amounts); the oracle is 'returns, and the DAG's leaves are documented inputs / loaded parameter groups'. "
        "Evidence counts the (stratum, rule, parameter path) reads actually executed.",
        "Valid populations as defined in DESIGN.md 2.2; reachability of branches is measured, not proved.",
        "3/C08",
    ),
}

NOT_YET = {}


def build():
    props = []
    with open(os.path.join(VERIF_DIR, "properties.jsonl"), encoding="utf-8") as fh:
        for line in fh:
            if line.strip():
                props.append(json.loads(line)["id"])
    checks = []
    for pid in props:
        if pid not in CHECKS:
            continue
        level, tech, text, note, ref = CHECKS[pid]
        checks.append({
            "property_id": pid,
            "quick_cmd": f"{PY} -m vf.runner {pid} --tier quick",
            "thorough_cmd": f"{PY} -m vf.runner {pid} --tier thorough",
            "evidence_file": f"evidence/{pid}.json",
            "replay_cmd_template": f"{PY} -m vf.runner {pid} --replay {{path}}",
            "engine": "vf",
            "level_claimed": {"category": level, "text": text, "design_ref": f"DESIGN.md {ref}"},
            "level_note": note,
            "technique": tech,
        })
    na = [
        {"property_id": pid, "reason": NOT_YET.get(pid, "check not built yet in this round (planned in DESIGN.md section 3; the technique applies)")}
        for pid in props if pid not in CHECKS
    ]
    return {
        "version": 1,
        "setup_cmd": "./setup.sh",
        "hooks": {
            "guard": "GETTSIM_VERIF",
            "enable": "no source hooks are needed: checks import /repo/src through the editable install of /venv and run the current working tree",
            "baseline_off_cmd": "cd /repo && /venv/bin/python -m pytest -ra -q -p no:cacheprovider --timeout=900 --continue-on-collection-errors",
            "source_commits": [],
            "add_only": True,
        },
        "engines": [
            {"name": "vf", "path": "vf/", "serves_properties": [c["property_id"] for c in checks],
             "kind_free_text": "Hypothesis 6.168 property-based testing (stateful machines for histories), exhaustive enumeration of small finite domains, Atheris fuzz targets; 16-way sharded runner"},
        ],
        "checks": checks,
        "not_applicable": na,
        "notes": "Run from /verif with /venv/bin/python. VERIF_SEED selects the Hypothesis seed. Exit 2 = harness error (never a verdict). Known findings: known_findings.json.",
    }


def main():
    m = build()
    path = os.path.join(VERIF_DIR, "MANIFEST.json")
    with open(path, "w", encoding="utf-8") as fh:
        json.dump(m, fh, indent=1, ensure_ascii=False)
    try:
        import jsonschema

        with open("/root/.vp/MANIFEST.schema.json") as fh:
            jsonschema.validate(m, json.load(fh))
        print("MANIFEST.json valid;", len(m["checks"]), "checks,", len(m["not_applicable"]), "not_applicable")
    except ImportError:
        print("MANIFEST.json written (jsonschema not available)")


if __name__ == "__main__":
    main()
