"""Regenerates /verif/MANIFEST.json from the table below:  python -m vf.manifest"""
from __future__ import annotations

import json
import os

from . import VERIF_DIR

PY = "/venv/bin/python"

# property -> (level, technique, level text, level note, design section)
CHECKS = {
    "C08": (
        "exploration",
        "property-based testing (Hypothesis): generated valid populations x every date stratum; no-crash + structural oracle; sys.monitoring coverage measurement",
        "Generated-input search: every stratum between change dates >= 2015 is simulated with generated valid populations "
        "(branch-seeking amounts); the oracle is 'returns, and the DAG's leaves are documented inputs / loaded parameter groups'. "
        "Evidence counts the (stratum, rule, parameter path) reads actually executed.",
        "Valid populations as defined in DESIGN.md 2.2; reachability of branches is measured, not proved.",
        "3/C08",
    ),
}

NOT_YET = {}


def build():
    props = []
    with open(os.path.join(VERIF_DIR, "properties.jsonl"), encoding="utf-8") as fh:
        for line in fh:
            if line.strip():
                props.append(json.loads(line)["id"])
    checks = []
    for pid in props:
        if pid not in CHECKS:
            continue
        level, tech, text, note, ref = CHECKS[pid]
        checks.append({
            "property_id": pid,
            "quick_cmd": f"{PY} -m vf.runner {pid} --tier quick",
            "thorough_cmd": f"{PY} -m vf.runner {pid} --tier thorough",
            "evidence_file": f"evidence/{pid}.json",
            "replay_cmd_template": f"{PY} -m vf.runner {pid} --replay {{path}}",
            "engine": "vf",
            "level_claimed": {"category": level, "text": text, "design_ref": f"DESIGN.md {ref}"},
            "level_note": note,
            "technique": tech,
        })
    na = [
        {"property_id": pid, "reason": NOT_YET.get(pid, "check not built yet in this round (planned in DESIGN.md section 3; the technique applies)")}
        for pid in props if pid not in CHECKS
    ]
    return {
        "version": 1,
        "setup_cmd": "./setup.sh",
        "hooks": {
            "guard": "GETTSIM_VERIF",
            "enable": "no source hooks are needed: checks import /repo/src through the editable install of /venv and run the current working tree",
            "baseline_off_cmd": "cd /repo && /venv/bin/python -m pytest -ra -q -p no:cacheprovider --timeout=900 --continue-on-collection-errors",
            "source_commits": [],
            "add_only": True,
        },
        "engines": [
            {"name": "vf", "path": "vf/", "serves_properties": [c["property_id"] for c in checks],
             "kind_free_text": "Hypothesis 6.168 property-based testing (stateful machines for histories), exhaustive enumeration of small finite domains, Atheris fuzz targets; 16-way sharded runner"},
        ],
        "checks": checks,
        "not_applicable": na,
        "notes": "Run from /verif with /venv/bin/python. VERIF_SEED selects the Hypothesis seed. Exit 2 = harness error (never a verdict). Known findings: known_findings.json.",
    }


def main():
    m = build()
    path = os.path.join(VERIF_DIR, "MANIFEST.json")
    with open(path, "w", encoding="utf-8") as fh:
        json.dump(m, fh, indent=1, ensure_ascii=False)
    try:
        import jsonschema

        with open("/root/.vp/MANIFEST.schema.json") as fh:
            jsonschema.validate(m, json.load(fh))
        print("MANIFEST.json valid;", len(m["checks"]), "checks,", len(m["not_applicable"]), "not_applicable")
    except ImportError:
        print("MANIFEST.json written (jsonschema not available)")


if __name__ == "__main__":
    main()
