"""Regenerates /verif/MANIFEST.json from the table below:  python -m vf.manifest"""
from __future__ import annotations

import json
import os

from . import VERIF_DIR

PY = "/venv/bin/python"

# property -> (level, technique, level text, level note, design section)
CHECKS = {
    "C01": (
        "exploration",
        "property-based testing (Hypothesis): metamorphic relation simulate(pi(P)) == pi(simulate(P)) on all DAG nodes; plus exhaustive enumeration of all row orders of 12 small pointer shapes",
        "Generated valid populations x drawn permutations / index labellings at every date stratum; both orders are really simulated for all ~320 nodes and compared on p_id (ids as partitions, dtype kind included). A finite block enumerates every row order of 12 hand-picked pointer shapes.",
        "Valid populations per DESIGN.md 2.2; float tolerance 1e-9 relative for re-ordered additions.",
        "3/C01",
    ),
    "C02": (
        "exploration",
        "property-based testing (Hypothesis): differential simulate(A++B)|A == simulate(A) and metamorphic relabelling of ids, all DAG nodes",
        "Two generated closed populations with disjoint ids are simulated alone and interleaved; A is also simulated under an injective relabelling of p_id/hh_id. All nodes compared (ids as partitions).",
        "A keeps its internal row order in the joint table (row-order dependence is C01). Id bounds 10^6 / 10^4.",
        "3/C02",
    ),
    "C03": (
        "exploration",
        "property-based testing (Hypothesis) against a reference evaluation: raw scalar rule applied row by row to the production parent columns; dtype vs declared type",
        "For every generated population and every scalar rule active at the date the production column is compared exactly with the raw Python rule evaluated per row, and its dtype kind with the return annotation.",
        "The raw rules are the reference; aggregation / conversion / grouping nodes are covered by C11-C13.",
        "3/C03",
    ),
    "C04": (
        "exploration",
        "property-based testing (Hypothesis): differential between target subsets / options (debug, minimal specification, dict vs DataFrame, extra columns)",
        "A drawn target subset (incl. derived time-unit variants and automatic group sums) with drawn options is compared column by column with the all-node run of the same population; shape and column set of the result are checked.",
        "Baseline is another real execution (all nodes + S).",
        "3/C04",
    ),
    "C05": (
        "exploration",
        "property-based testing (Hypothesis): round trip - feed a node's own production column back as data, compare all other nodes, require the overlap warning",
        "For drawn nodes of the DAG (every node over a run) the production column is supplied as data; the second run must not raise, must warn for overridden rules and must reproduce every other node.",
        "The supplied column has exactly the dtype pandas returned.",
        "3/C05",
    ),
    "C06": (
        "exploration",
        "property-based testing (Hypothesis): generated reforms (scaled group, single leaf, deep copies, cloned rule, user function f+1, rounding base) with a DAG-derived locality oracle (bit-identical outside the dependants) and an aliasing scan of the parameter dictionary",
        "Each generated reform is simulated next to the baseline for all nodes; every node that does not depend on the reformed group / rule must be bit-identical, copies and clones must change nothing; additionally no mutable object may be shared between two parameter groups.",
        "Dependants are computed from the code's own DAG; reformed runs that raise are skipped and counted.",
        "3/C06",
    ),
    "C13": (
        "exploration",
        "property-based testing (Hypothesis): algebraic factor laws between the four unit variants of every time-suffixed node, commutation with group sums against a reference sum, metamorphic input-unit swap with bit-identical feedback, unit-level converter round trips on generated floats",
        "All four unit variants of drawn flow nodes are requested together and compared with the documented factors; automatic group sums are compared with a reference math.fsum per group; inputs are supplied in another unit; the twelve converters are checked on generated floats.",
        "Factors 12, 365.25/7, 365.25; tolerances 1e-12 (conversions) / 1e-9 (simulations).",
        "3/C13",
    ),
    "C15": (
        "exploration",
        "property-based testing (Hypothesis): invariant 'one value per group' on every group-suffixed node of the DAG, populations with per-person variation; root cause = most upstream varying node",
        "Every node with a group suffix is grouped by the matching id column of the same run and must be constant; the evidence counts (stratum, node) pairs for which members really differed in an individual-level ancestor input.",
        "Two design-level findings are listed in known_findings.json and suppressed by node name only.",
        "3/C15",
    ),
    "C16": (
        "exploration",
        "property-based testing (Hypothesis) with an extreme-value generator: finiteness of all float nodes, non-negativity of default targets, table of statutory caps written from named parameters / before-after node pairs",
        "Extreme populations (zero and 10^4..2*10^6 incomes and wealth, rental losses, ages 0-100, up to ten children) at every stratum; invariants checked on all nodes of one run.",
        "Caps are sound (never tighter than the statute as implemented in the documented parameters), some are loose.",
        "3/C16",
    ),
    "C17": (
        "exploration",
        "property-based testing (Hypothesis): wage sweeps of generated households (one simulation per sweep) with per-person exclusivity invariants and the Kinderzuschlag coverage condition; regime sequences measured",
        "A drawn household is copied along a wage grid so that the sweep crosses the break-even points of the priority checks; per person the exclusivity of ALG II / Wohngeld / Kinderzuschlag / Grundsicherung, bg-within-wthh and the KiZ coverage condition are checked.",
        "Invariants are evaluated on nodes of the same run.",
        "3/C17",
    ),
    "C19": (
        "exploration",
        "property-based testing (Hypothesis) over configurations x dense wage sweeps incl. exact statutory boundaries +-0.01: monotonicity, zero for marginal employment, constancy above ceilings, continuity at the transition-zone end, employee+employer=total",
        "For each drawn configuration (east/west, children, age, grid step) and stratum a sweep of up to 18000 wages is simulated in one table and the shape invariants are checked for the four employee contributions.",
        "Employee not self-employed / retired / privately insured.",
        "3/C19",
    ),
    "C07": (
        "exploration",
        "differential testing against an independent reference model of the YAML semantics (exact Fraction schedules) over enumerated change dates, their neighbours, leap days and seeded random days; decorator-derived oracle for rules; within-stratum constancy",
        "Every parameter leaf, rounding spec, schedule coefficient and the rule dictionary of set_up_policy_environment(d) is compared with a reference resolver written from GEP 3/5 over yaml.safe_load, on change dates +-1 day, leap days and random days from 1980 on.",
        "The reference model is a second reading of the documentation; disagreements are triaged against GEP 3 before being reported.",
        "3/C07",
    ),
    "C08": (
        "exploration",
        "property-based testing (Hypothesis): generated valid populations x every date stratum; no-crash + structural oracle; sys.monitoring coverage measurement",
        "Generated-input search: every stratum between change dates >= 2015 is simulated with generated valid populations "
        "(branch-seeking amounts); the oracle is 'returns, and the DAG's leaves are documented inputs / loaded parameter groups'. "
        "Evidence counts the (stratum, rule, parameter path) reads actually executed.",
        "Valid populations as defined in DESIGN.md 2.2; reachability of branches is measured, not proved.",
        "3/C08",
    ),
}

NOT_YET = {}


def build():
    props = []
    with open(os.path.join(VERIF_DIR, "properties.jsonl"), encoding="utf-8") as fh:
        for line in fh:
            if line.strip():
                props.append(json.loads(line)["id"])
    checks = []
    for pid in props:
        if pid not in CHECKS:
            continue
        level, tech, text, note, ref = CHECKS[pid]
        checks.append({
            "property_id": pid,
            "quick_cmd": f"{PY} -m vf.runner {pid} --tier quick",
            "thorough_cmd": f"{PY} -m vf.runner {pid} --tier thorough",
            "evidence_file": f"evidence/{pid}.json",
            "replay_cmd_template": f"{PY} -m vf.runner {pid} --replay {{path}}",
            "engine": "vf",
            "level_claimed": {"category": level, "text": text, "design_ref": f"DESIGN.md {ref}"},
            "level_note": note,
            "technique": tech,
        })
    na = [
        {"property_id": pid, "reason": NOT_YET.get(pid, "check not built yet in this round (planned in DESIGN.md section 3; the technique applies)")}
        for pid in props if pid not in CHECKS
    ]
    return {
        "version": 1,
        "setup_cmd": "./setup.sh",
        "hooks": {
            "guard": "GETTSIM_VERIF",
            "enable": "no source hooks are needed: checks import /repo/src through the editable install of /venv and run the current working tree",
            "baseline_off_cmd": "cd /repo && /venv/bin/python -m pytest -ra -q -p no:cacheprovider --timeout=900 --continue-on-collection-errors",
            "source_commits": [],
            "add_only": True,
        },
        "engines": [
            {"name": "vf", "path": "vf/", "serves_properties": [c["property_id"] for c in checks],
             "kind_free_text": "Hypothesis 6.168 property-based testing (stateful machines for histories), exhaustive enumeration of small finite domains, Atheris fuzz targets; 16-way sharded runner"},
        ],
        "checks": checks,
        "not_applicable": na,
        "notes": "Run from /verif with /venv/bin/python. VERIF_SEED selects the Hypothesis seed. Exit 2 = harness error (never a verdict). Known findings: known_findings.json.",
    }


def main():
    m = build()
    path = os.path.join(VERIF_DIR, "MANIFEST.json")
    with open(path, "w", encoding="utf-8") as fh:
        json.dump(m, fh, indent=1, ensure_ascii=False)
    try:
        import jsonschema

        with open("/root/.vp/MANIFEST.schema.json") as fh:
            jsonschema.validate(m, json.load(fh))
        print("MANIFEST.json valid;", len(m["checks"]), "checks,", len(m["not_applicable"]), "not_applicable")
    except ImportError:
        print("MANIFEST.json written (jsonschema not available)")


if __name__ == "__main__":
    main()
