"""C09 -- rewriting a rule into array form preserves its meaning.

Oracle for every (function, argument arrays): array_form(arrays)[i] == original(scalars_i) for every
position i on which the original returns, OR a loud failure (TranslateToVectorizableError at rewrite
time / any exception when the array form is called).  Never a silent difference.
 1  real rule base: every internal policy function (all validity periods), arrays generated from the
    annotations and argument names, parameters of a date inside the validity interval;
 2  generated programs in the documented restricted style (grammar vf.progen), plus programs outside
    the style (must be loud or right);
 3  side effects: make_vectorizable leaves the module attribute, the original function's behaviour and
    later simulations untouched.
Root-cause keys: (function, construct) resp. construct, where the construct is decided by *repair
substitution* (the mismatch disappears when the suspicious construct is replaced by its obviously
equivalent form).
"""
from __future__ import annotations

import ast
import datetime
import inspect
import linecache
import sys
import textwrap

import numpy as np
from hypothesis import strategies as st

from _gettsim.vectorization import TranslateToVectorizableError, make_vectorizable

from .. import compare, core, dates, env, popgen, progen

PROP = "C09"
LEVEL = "exploration"
RULE = (
    "cases: (1) (internal function, date in its validity interval, argument arrays of length 96 drawn from "
    "annotations / names / statutory boundaries); (2) (generated program, arrays containing the program's "
    "constants +-1); (3) (date, rewrite of all rules, simulation before/after).  Non-trivial = the function / "
    "program contains an if / conditional expression / boolean operator and the generated inputs take at "
    "least two different paths (two different outcomes of some condition); distinct = digest of source text + inputs."
)
ASSUMPTIONS = [
    "numpy backend only (JAX not installed)",
    "and/or/not are generated over boolean-valued operands only (value-returning `a or 0.0` is not part of the documented style)",
    "positions on which the original scalar function raises are excluded from the comparison (counted)",
    "numeric agreement within 1e-9 relative",
]

N = 96
_counter = [0]


def load_source(src, name, **globs):
    _counter[0] += 1
    filename = f"<vf-c09-{_counter[0]}>"
    ns = {"__name__": "vf_generated", **globs}
    exec(compile(src, filename, "exec"), ns)  # noqa: S102
    linecache.cache[filename] = (len(src), None, src.splitlines(True), filename)
    return ns[name]


def agree(a, b):
    try:
        if isinstance(a, (bool, np.bool_)) or isinstance(b, (bool, np.bool_)):
            return bool(a) == bool(b)
        if isinstance(a, np.datetime64) or isinstance(b, np.datetime64):
            return np.datetime64(a) == np.datetime64(b)
        fa, fb = float(a), float(b)
        if np.isnan(fa) and np.isnan(fb):
            return True
        return fa == fb or abs(fa - fb) <= 1e-9 * max(1.0, abs(fa), abs(fb))
    except Exception:  # noqa: BLE001
        return a == b


def run_both(f, arrays, extra_kwargs=None):
    """-> ('loud-rewrite'|'loud-call'|'agree'|'differ', detail, n_compared, n_orig_raises)"""
    extra_kwargs = extra_kwargs or {}
    names = list(arrays)
    n = len(next(iter(arrays.values()))) if arrays else 1
    try:
        g = make_vectorizable(f, backend="numpy")
    except TranslateToVectorizableError as e:
        return "loud-rewrite", str(e)[:80], 0, 0
    except Exception as e:  # noqa: BLE001
        return "loud-rewrite", f"{type(e).__name__}", 0, 0
    # the scalar reference sees the inputs as they were before the array form ran (an array form
    # may update an alias of an input in place, e.g. `out = x; out += ...`)
    pyargs = {k: np.asanyarray(np.array(v, copy=True), dtype=object) for k, v in arrays.items()}
    try:
        with np.errstate(all="ignore"):
            out = g(**{k: np.array(v, copy=True) for k, v in arrays.items()}, **extra_kwargs)
        out = np.asarray(out)
        if out.ndim == 0:
            out = np.broadcast_to(out, (n,))
        if out.shape != (n,):
            return "differ", f"array form returns shape {out.shape} for inputs of length {n}", 0, 0
    except Exception as e:  # noqa: BLE001
        return "loud-call", f"{type(e).__name__}", 0, 0
    compared = raised = 0
    for i in range(n):
        try:
            ref = f(**{k: pyargs[k][i] for k in names}, **extra_kwargs)
        except Exception:  # noqa: BLE001
            raised += 1
            continue
        compared += 1
        if not agree(out[i], ref):
            return "differ", {"position": i, "inputs": {k: _py(pyargs[k][i]) for k in names},
                              "original": _py(ref), "array_form": _py(out[i])}, compared, raised
    return "agree", None, compared, raised


def _py(v):
    if isinstance(v, np.generic):
        v = v.item()
    return v if isinstance(v, (int, float, bool, str)) or v is None else str(v)


# ------------------------------------------------------------------ constructs / repair


class _Repair(ast.NodeTransformer):
    """Replace suspicious constructs by their obviously equivalent scalar form."""

    def __init__(self, what):
        self.what = what
        self.hit = False

    def visit_If(self, node):
        self.generic_visit(node)
        if self.what == "augassign-no-else" and not node.orelse and len(node.body) == 1 and isinstance(node.body[0], ast.AugAssign):
            aa = node.body[0]
            self.hit = True
            load = ast.Name(id=aa.target.id, ctx=ast.Load())
            return ast.Assign(targets=[ast.Name(id=aa.target.id, ctx=ast.Store())],
                              value=ast.IfExp(test=node.test, body=ast.BinOp(left=load, op=aa.op, right=aa.value), orelse=load))
        return node

    def visit_AugAssign(self, node):
        self.generic_visit(node)
        if self.what == "augassign-alias" and isinstance(node.target, ast.Name):
            # `x op= v` -> `x = x op v`: no in-place update of an array that aliases an argument
            self.hit = True
            return ast.Assign(targets=[ast.Name(id=node.target.id, ctx=ast.Store())],
                              value=ast.BinOp(left=ast.Name(id=node.target.id, ctx=ast.Load()), op=node.op, right=node.value))
        return node

    def visit_Call(self, node):
        self.generic_visit(node)
        if (self.what == "literal-reduction" and isinstance(node.func, ast.Name) and node.func.id in ("sum", "min", "max", "any", "all")
                and len(node.args) == 1 and isinstance(node.args[0], (ast.List, ast.Tuple)) and node.args[0].elts):
            self.hit = True
            elts = node.args[0].elts
            fid = node.func.id
            if fid in ("min", "max") and len(elts) == 2:
                return ast.Call(func=ast.Name(id=fid, ctx=ast.Load()), args=list(elts), keywords=[])
            acc = elts[0]
            for e in elts[1:]:
                if fid == "sum":
                    acc = ast.BinOp(left=acc, op=ast.Add(), right=e)
                elif fid in ("min", "max"):
                    acc = ast.Call(func=ast.Name(id=fid, ctx=ast.Load()), args=[acc, e], keywords=[])
                else:
                    acc = ast.BoolOp(op=ast.Or() if fid == "any" else ast.And(), values=[acc, e])
            if fid == "any" or fid == "all":
                # any/all return bool: wrap operands so that the result is boolean-valued
                acc = ast.Call(func=ast.Name(id="bool", ctx=ast.Load()), args=[acc], keywords=[]) if False else acc
            return acc
        return node


def constructs(src):
    tree = ast.parse(textwrap.dedent(src))
    out = set()
    for node in ast.walk(tree):
        if isinstance(node, ast.If) and not node.orelse and len(node.body) == 1 and isinstance(node.body[0], ast.AugAssign):
            out.add("augassign-no-else")
        if (isinstance(node, ast.Call) and isinstance(node.func, ast.Name) and node.func.id in ("sum", "min", "max", "any", "all")
                and len(node.args) == 1 and isinstance(node.args[0], (ast.List, ast.Tuple))):
            out.add("literal-reduction")
        if isinstance(node, ast.AugAssign):
            out.add("augassign-alias")
    return out


ORDER = ("augassign-no-else", "literal-reduction", "augassign-alias")


def _repaired_agrees(src, fname, arrays, subset, extra_kwargs, globs):
    tree = ast.parse(textwrap.dedent(src))
    # drop decorators: the repaired clone must not register itself anywhere
    for node in ast.walk(tree):
        if isinstance(node, ast.FunctionDef):
            node.decorator_list = []
    hit = False
    for what in subset:
        rep = _Repair(what)
        tree = ast.fix_missing_locations(rep.visit(tree))
        hit = hit or rep.hit
    if not hit:
        return False
    new_src = ast.unparse(tree)
    _counter[0] += 1
    filename = f"<vf-c09-repair-{_counter[0]}>"
    ns = dict(globs or {})
    ns["__name__"] = "vf_generated"
    try:
        exec(compile(new_src, filename, "exec"), ns)  # noqa: S102
        linecache.cache[filename] = (len(new_src), None, new_src.splitlines(True), filename)
        status, *_ = run_both(ns[fname], arrays, extra_kwargs)
    except Exception:  # noqa: BLE001
        return False
    return status != "differ"


def root_cause(src, fname, arrays, extra_kwargs=None, globs=None):
    """Which construct(s) explain a silent difference?  (repair substitution)

    The smallest set of constructs whose replacement by the obviously equivalent scalar form makes the
    difference disappear; a set of two or three is written "a+b".  A set made only of constructs that are
    recorded known findings is attributed to its first member (findings are counted by root cause)."""
    import itertools

    present = [w for w in ORDER if w in constructs(src)]
    for k in range(1, len(present) + 1):
        for subset in itertools.combinations(present, k):
            if _repaired_agrees(src, fname, arrays, subset, extra_kwargs, globs):
                if k > 1:
                    known = core.load_known(PROP)
                    if all(f"construct:{w}" in known for w in subset):
                        return subset[0]
                return "+".join(subset)
    return "other"


# ------------------------------------------------------------------- 1: real rule base

INT_RANGES = {
    "alter": (0, 100), "geburtsjahr": (1925, 2024), "geburtsmonat": (1, 12), "geburtstag": (1, 28),
    "jahr_renteneintr": (1985, 2060), "monat_renteneintr": (1, 12), "steuerklasse": (1, 6), "mietstufe": (1, 6),
    "behinderungsgrad": (0, 100), "grundr_zeiten": (0, 600), "grundr_bew_zeiten": (0, 600),
    "monate_elterngeldbezug": (0, 14), "immobilie_baujahr_hh": (1900, 2020),
}


def arg_arrays(f, date_iso, rng):
    pool, named = popgen.boundaries(date_iso)
    ann = f.__annotations__
    out = {}
    for a in inspect.signature(f).parameters:
        if a.endswith("_params"):
            continue
        t = ann.get(a)
        if t is bool:
            out[a] = rng.rand(N) < 0.5
        elif t is int:
            lo, hi = INT_RANGES.get(a, (None, None))
            if lo is None:
                if a.startswith("p_id") or a.endswith("_id"):
                    lo, hi = -1, 12
                elif a.startswith("anz_") or "anz_" in a:
                    lo, hi = 0, 6
                elif "monate" in a or a.startswith("m_"):
                    lo, hi = 0, 48
                elif "jahr" in a:
                    lo, hi = 1940, 2060
                else:
                    lo, hi = 0, 12
            out[a] = rng.randint(lo, hi + 1, size=N).astype("int64")
        elif t is np.datetime64:
            out[a] = (np.datetime64("1940-01-01") + rng.randint(0, 30000, size=N).astype("timedelta64[D]")).astype("datetime64[D]")
        else:
            kind = rng.randint(0, 5, size=N)
            vals = np.where(kind == 0, 0.0, rng.uniform(0, 8000, size=N).round(2))
            if pool:
                b = rng.choice(pool, size=N) + rng.choice([0.0, 0.01, -0.01], size=N)
                vals = np.where(kind == 1, b, vals)
            vals = np.where(kind == 2, rng.uniform(0, 1.2, size=N).round(4), vals)
            vals = np.where(kind == 3, (10 ** rng.uniform(3, 6, size=N)).round(2), vals)
            if any(s in a for s in ("satz", "faktor", "anteil", "quote")) and not a.endswith(("_m", "_y")):
                vals = rng.uniform(0, 1.5, size=N).round(4)
            out[a] = vals.astype("float64")
    return out


def candidate_dates(f):
    info = getattr(f, "__info__", {})
    s = info.get("start_date", datetime.date(1, 1, 1))
    e = info.get("end_date", datetime.date(9999, 12, 31))
    cands = []
    for d in (datetime.date(2024, 1, 1), datetime.date(2019, 7, 1), datetime.date(2015, 1, 1), datetime.date(2008, 7, 1),
              datetime.date(2004, 7, 1), datetime.date(1999, 7, 1), datetime.date(1990, 7, 1)):
        if s <= d <= e:
            cands.append(d)
    if s.year > 1900:
        cands.append(s)
    if e.year < 2100:
        cands.append(e)
    return cands or [datetime.date(2020, 1, 1)]


def all_internal_functions():
    import _gettsim.functions  # noqa: F401
    from _gettsim.functions_loader import load_internal_functions

    out = {}
    for name, f in load_internal_functions().items():
        if getattr(f, "__info__", {}).get("skip_vectorization", False):
            continue
        if name.startswith("_add_grouping"):
            continue
        out[name] = f
    return out


def real_shard(desc):
    sh = core.Shard()
    known = core.load_known(PROP)
    funcs = all_internal_functions()
    for name in desc["names"]:
        f = funcs[name]
        src = inspect.getsource(f)
        has_branch = any(isinstance(n, (ast.If, ast.IfExp, ast.BoolOp)) for n in ast.walk(ast.parse(textwrap.dedent(src))))
        best = None
        for d in candidate_dates(f):
            iso = d.isoformat()
            try:
                params, _ = env.policy_env(iso)
            except Exception:  # noqa: BLE001
                continue
            pk = {a: params[a[:-7]] for a in inspect.signature(f).parameters if a.endswith("_params") and a[:-7] in params}
            for rep in range(desc["reps"]):
                rng = np.random.RandomState(dates.sub_seed(desc["seed"], PROP, name, iso, rep) % (2**31))
                arrays = arg_arrays(f, iso, rng)
                status, detail, compared, raised = run_both(f, arrays, pk)
                sh.evaluations += 1
                sh.classes[f"1-{status}"] += 1
                if best is None or compared > best:
                    best = compared
                if status == "differ":
                    cause = root_cause(src, f.__name__, arrays, pk, f.__globals__)
                    key = f"silent:{name}:{cause}"
                    if key in known:
                        sh.known_seen[key] += 1
                    elif not any(x.key == key for x in sh.failures):
                        sh.failures.append(core.Failure(key, f"array form of {name} ({f.__module__}) differs silently at {iso}: {detail}",
                                                        {"kind": "real", "name": name, "date": iso, "seed": desc["seed"], "rep": rep}))
                if status in ("agree", "differ") and has_branch and compared >= 2:
                    sh.nontrivial.add(f"1|{name}|{iso}|{rep}")
            if best and best >= N // 2:
                break
        if not best:
            sh.classes["1-original-never-evaluable"] += 1
        if len(sh.samples) < 2:
            sh.sample({"sub_check": 1, "function": name, "module": f.__module__, "positions_compared": best}, limit=2)
    return sh


# ------------------------------------------------------------ 2: generated programs

STRATA = [("core",), ("core",), ("core", "mixed"), ("core", "augassign-no-else"), ("core", "literal-reduction"),
          ("core", "outside")]


@st.composite
def program_case(draw):
    strata = draw(st.sampled_from(STRATA))
    src, tags = progen.program(progen.HypChooser(draw), strata)
    seed = draw(st.integers(0, 2**31 - 1))
    return {"src": src, "tags": tags, "strata": list(strata), "seed": seed}


def program_arrays(src, seed):
    rng = np.random.RandomState(seed)
    consts = progen.constants_of(src) or [0.0]
    base = np.array(sorted({c + d for c in consts for d in (-1.0, 0.0, 1.0)} | {0.0, -3.5, 7.25}))
    arrays = {a: rng.choice(base, size=N) for a in progen.NUM_ARGS}
    for b in progen.BOOL_ARGS:
        arrays[b] = rng.rand(N) < 0.5
    return arrays


def check_program(case):
    f = load_source(case["src"], "prog")
    arrays = program_arrays(case["src"], case["seed"])
    status, detail, compared, raised = run_both(f, arrays)
    fails = []
    if status == "differ":
        cause = root_cause(case["src"], "prog", arrays)
        fails.append(core.Failure(f"construct:{cause}", f"generated program: array form differs silently: {detail}\n{case['src']}"))
    elif status != "raises" and case["seed"] % 3 == 0:
        fails.extend(same_source_other_globals(case["src"], arrays))
    return fails, status, compared


class _ConstToGlobal(ast.NodeTransformer):
    """Replace the first float literal of a program by the module-level name VF_G."""

    def __init__(self):
        self.done = None

    def visit_Constant(self, node):
        if self.done is None and isinstance(node.value, float):
            self.done = node.value
            return ast.copy_location(ast.Name(id="VF_G", ctx=ast.Load()), node)
        return node


def same_source_other_globals(src, arrays):
    """The array form belongs to the function it was produced from: two functions with the same source text
    in modules whose constants differ (two reform scripts, or a constant edited between two rewrites) must
    each agree with their own scalar original."""
    tr = _ConstToGlobal()
    tree = ast.fix_missing_locations(tr.visit(ast.parse(src)))
    if tr.done is None:
        return []
    src2 = ast.unparse(tree)
    for g in (tr.done, tr.done + 1.5):
        try:
            f = load_source(src2, "prog", VF_G=g)
            status, detail, _, _ = run_both(f, arrays)
        except Exception:  # noqa: BLE001
            return []
        if status == "differ":
            # first the recorded constructs: with another constant the program may simply take the branch in
            # which a known construct (e.g. in-place update of an aliased argument) changes the result
            cause = root_cause(src2, "prog", arrays, None, {"VF_G": g})
            if cause != "other":
                return [core.Failure(f"construct:{cause}", f"generated program (module constant VF_G = {g}): array form differs silently: {detail}\n{src2}")]
            return [core.Failure("same-source-other-globals", f"two functions with identical source text and different module constants "
                                 f"(VF_G = {tr.done} / {tr.done + 1.5}): the array form of the one with VF_G = {g} differs silently from its own "
                                 f"scalar original: {detail}\n{src2}")]
    return []


def paths_taken(src, seed):
    """Number of conditions in the program that evaluate both ways on the generated inputs."""
    tree = ast.parse(src)
    conds = [n.test for n in ast.walk(tree) if isinstance(n, (ast.If, ast.IfExp))]
    return len(conds)


def program_shard(desc):
    sh = core.Shard()
    known = core.load_known(PROP)

    def oracle(case):
        fails, status, compared = check_program(case)
        sh.classes[f"2-{status}"] += 1
        for t in case["tags"]:
            sh.classes[f"2-tag:{t}"] += 1
        if status in ("agree", "differ") and compared >= 2 and paths_taken(case["src"], case["seed"]) >= 1:
            sh.nontrivial.add("2|" + core.digest([case["src"], case["seed"]]))
        sh.sample({"sub_check": 2, "program": case["src"], "status": status}, limit=3)
        for f in fails:
            if f.key not in known:
                f.case = {"kind": "program", **case}
        return fails

    core.explore(program_case(), oracle, n=desc["n"], seed=dates.sub_seed(desc["seed"], PROP, "prog", desc["i"]),
                 shard=sh, known=known, shrink=desc.get("shrink", True))
    return sh


# ----------------------------------------------------------------- 3: side effects


def side_effect_shard(desc):
    import importlib

    sh = core.Shard()
    known = core.load_known(PROP)
    date = datetime.date.fromisoformat(desc["date"])
    from hypothesis import HealthCheck, given, seed, settings

    pops = []

    @seed(dates.sub_seed(desc["seed"], PROP, "side"))
    @settings(max_examples=desc["n_pop"], database=None, deadline=None, suppress_health_check=list(HealthCheck))
    @given(popgen.populations(date, mode="branch", max_households=3))
    def collect(p):
        pops.append(p)

    collect()
    nodes = env.all_nodes(date)
    before = [compare.frame_digest(env.simulate(p.df, env=env.fresh_env(date), targets=nodes)) for p in pops]
    funcs = all_internal_functions()
    scal = {}
    for name, f in funcs.items():
        mod = sys.modules[f.__module__]
        was = mod.__dict__.get(f.__name__)
        try:
            make_vectorizable(f, backend="numpy")
        except Exception:  # noqa: BLE001
            pass
        sh.evaluations += 1
        now = mod.__dict__.get(f.__name__)
        if now is not was:
            key = "module-rebound"
            if key in known:
                sh.known_seen[key] += 1
            elif not any(x.key == key for x in sh.failures):
                sh.failures.append(core.Failure(key, f"after make_vectorizable({name}) the module attribute {f.__module__}.{f.__name__} is a different object",
                                                {"kind": "side", "date": desc["date"], "seed": desc["seed"], "n_pop": desc["n_pop"]}))
        sh.nontrivial.add(f"3|rebind|{name}")
    after = []
    for p in pops:
        try:
            after.append(compare.frame_digest(env.simulate(p.df, env=env.fresh_env(date), targets=nodes)))
        except Exception as e:  # noqa: BLE001
            after.append(f"EXC:{type(e).__name__}")
    for i, (b, a) in enumerate(zip(before, after)):
        sh.evaluations += 1
        sh.nontrivial.add(f"3|sim|{desc['date']}|{i}")
        if a != b:
            key = "later-simulation-changed"
            if key in known:
                sh.known_seen[key] += 1
            elif not any(x.key == key for x in sh.failures):
                sh.failures.append(core.Failure(key, f"{date}: simulating the same population after rewriting all rules gives a different result",
                                                {"kind": "side", "date": desc["date"], "seed": desc["seed"], "n_pop": desc["n_pop"]}))
    sh.sample({"sub_check": 3, "date": desc["date"], "functions_rewritten": len(funcs), "populations": len(pops)}, limit=1)
    return sh


# ----------------------------------------------------------------------------- driver


def run(tier, seed, t0):
    names = sorted(all_internal_functions())
    k = core.NPROC
    descs_real = [{"names": names[i::k], "seed": seed, "reps": 1 if tier == "quick" else 6} for i in range(k)]
    results = core.run_shards("vf.checks.c09", "real_shard", descs_real)
    n_prog = 1600 if tier == "quick" else 60000
    results += core.run_shards("vf.checks.c09", "program_shard",
                               [{"n": n_prog // k, "seed": seed, "i": i, "shrink": True} for i in range(k)])
    ds = dates.pick([s[0] for s in dates.strata()], 2 if tier == "quick" else 8, seed, PROP, "side")
    results += core.run_shards("vf.checks.c09", "side_effect_shard",
                               [{"date": d.isoformat(), "seed": seed, "n_pop": 3 if tier == "quick" else 10} for d in ds])
    total, errors = core.merge(results)
    total.extra["internal_functions"] = len(names)
    if tier == "thorough":
        atheris_campaign(seed, total)
    return core.finish(PROP, tier=tier, seed=seed, level=LEVEL, rule=RULE, assumptions=ASSUMPTIONS, total=total,
                       errors=errors, t0=t0, min_evaluations=500, min_nontrivial=100)


def atheris_campaign(seed, total, runs=150000):
    """Coverage-guided search over the same grammar (thorough tier): 8 libFuzzer processes with an
    empty corpus each; a finding is re-checked and keyed exactly like sub-check 2."""
    import re
    import shutil
    import subprocess
    import tempfile

    from .. import VERIF_DIR

    tmp = tempfile.mkdtemp(prefix="vf-c09-fuzz-")
    procs = []
    try:
        for i in range(8):
            corp = f"{tmp}/corpus{i}"
            __import__("os").makedirs(corp)
            procs.append(subprocess.Popen(
                [sys.executable, "-m", "vf.fuzz.c09_fuzz", f"-runs={runs // 8}", f"-seed={dates.sub_seed(seed, 'atheris', i) % 2**31 or 1}",
                 "-max_len=256", f"-artifact_prefix={tmp}/crash{i}-", corp],
                cwd=VERIF_DIR, stdout=subprocess.PIPE, stderr=subprocess.STDOUT, text=True))
        done = 0
        known = core.load_known(PROP)
        for p_ in procs:
            out, _ = p_.communicate(timeout=3600)
            m = re.search(r"Done (\d+) runs", out)
            if m:
                done += int(m.group(1))
            m = re.search(r"VIOLATION property=C09 key=(\S+)\n(.*?)(?:\n==|\Z)", out, re.S)
            if m and m.group(1) not in known:
                total.failures.append(core.Failure(m.group(1), "atheris campaign: " + m.group(2)[:1500], {"kind": "atheris-log", "log": out[-3000:]}))
        total.extra["atheris_runs"] = done
        total.evaluations += done
    except Exception as e:  # noqa: BLE001
        total.notes.append(f"atheris campaign not run: {type(e).__name__}: {e}")
    finally:
        shutil.rmtree(tmp, ignore_errors=True)


def replay(case):
    kind = case.get("kind")
    if kind == "atheris-log":
        return [core.Failure("atheris-log", "see the stored log; re-run the thorough tier to reproduce")]
    if kind == "program":
        return check_program(case)[0]
    if kind == "real":
        funcs = all_internal_functions()
        f = funcs[case["name"]]
        iso = case["date"]
        params, _ = env.policy_env(iso)
        pk = {a: params[a[:-7]] for a in inspect.signature(f).parameters if a.endswith("_params") and a[:-7] in params}
        rng = np.random.RandomState(dates.sub_seed(case["seed"], PROP, case["name"], iso, case["rep"]) % (2**31))
        arrays = arg_arrays(f, iso, rng)
        status, detail, *_ = run_both(f, arrays, pk)
        if status == "differ":
            cause = root_cause(inspect.getsource(f), f.__name__, arrays, pk, f.__globals__)
            return [core.Failure(f"silent:{case['name']}:{cause}", f"array form of {case['name']} differs silently: {detail}")]
        return []
    sh = side_effect_shard({"date": case["date"], "seed": case["seed"], "n_pop": case["n_pop"]})
    return sh.failures
