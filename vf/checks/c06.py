"""C06 -- a reform changes only what depends on it (reform locality).

Oracle: with D = descendants (in the code's own DAG of all nodes) of the rules that read the
reformed parameter group (as `<g>_params` argument or through their rounding key), resp. of the
replaced rule, every node outside D is bit-identical between the baseline run and the reformed
run; deep copies of parameters / identical clones of rules change nothing at all.  Plus an
aliasing scan: no mutable object is shared between two parameter groups.
"""
from __future__ import annotations

import copy
import functools
import inspect
import types

import networkx as nx
import numpy as np
from hypothesis import strategies as st

from _gettsim.config import INTERNAL_PARAMS_GROUPS

from .. import compare, core, env, popcheck, popgen
from .c01 import _Case

PROP = "C06"
LEVEL = "exploration"
RULE = (
    "case = (date stratum >= 2015 or one of the sampled strata of 2005-2014 with the screened node universe, population, reform) with reform in {scale all numeric leaves of one "
    "group, change one leaf, deep-copy params, deep-copy one group, clone one rule, replace one float "
    "rule by f+1 via functions=[env, {name: user_f}], change one rounding base}.  Non-trivial = the "
    "set D of dependants is a non-empty proper subset of the nodes and at least one node in D really "
    "changed (copies/clones: the population has >= 2 rows); distinct = (stratum, reform descriptor, population digest)."
)
ASSUMPTIONS = [
    "dependants are computed from the code's own DAG (dags.create_dag) - used to build the oracle, not as the verdict",
    "a reformed run that raises (e.g. scaled thresholds no longer sorted) is skipped and counted, not reported",
    "comparison outside D is exact (bitwise equal values and equal dtype)",
]
BUDGET = {"quick": (32, 8), "thorough": (None, 40)}
EARLY = 6  # additional strata from 2005-2014 in the quick tier (all of them in the thorough tier)
GEN = dict(mode="branch", max_households=3)
KINDS = ["scale_group", "one_leaf", "copy_all", "copy_group", "clone_rule", "source_copy", "plus_one", "rounding_base", "rounding_offset"]


def numeric_paths(obj, path=()):
    out = []
    if isinstance(obj, dict):
        for k, v in obj.items():
            if k in ("datum",):
                continue
            out += numeric_paths(v, (*path, k))
    elif isinstance(obj, np.ndarray):
        if obj.dtype.kind in "fiu":
            out.append(path)
    elif isinstance(obj, (int, float, np.integer, np.floating)) and not isinstance(obj, bool):
        if np.isfinite(obj):
            out.append(path)
    return out


def _get(d, path):
    for k in path:
        d = d[k]
    return d


def _set(d, path, v):
    for k in path[:-1]:
        d = d[k]
    d[path[-1]] = v


def scaled(v, eps):
    if isinstance(v, np.ndarray):
        return v * (1 + eps)
    return type(v)(v * (1 + eps)) if isinstance(v, float) else v * (1 + eps)


def users_of_group(date, g):
    _, functions = env.policy_env(date)
    info = env.dag_info(date)
    out = set()
    for n in info["computed"]:
        f = info["functions"].get(n)
        raw = functions.get(n)
        if raw is not None and f"{g}_params" in inspect.signature(raw).parameters:
            out.add(n)
        if raw is not None and getattr(raw, "__info__", {}).get("params_key_for_rounding") == g:
            out.add(n)
        if f is not None and f"{g}_params" in inspect.signature(f).parameters:
            out.add(n)
    return out


def descendants(date, roots):
    dag = env.dag_info(date)["dag"]
    out = set(roots)
    for r in roots:
        if r in dag:
            out |= nx.descendants(dag, r)
    return out


def clone(f):
    g = types.FunctionType(f.__code__, f.__globals__, f.__name__, f.__defaults__, f.__closure__)
    g.__dict__.update(copy.copy(f.__dict__))
    g.__annotations__ = dict(f.__annotations__)
    g.__kwdefaults__ = f.__kwdefaults__
    g.__module__ = f.__module__
    g.__doc__ = f.__doc__
    g.__qualname__ = f.__qualname__
    return g


def source_copy(f, postponed=False):
    """The rule as a user would copy it into an own script: same source text (decorators included), same
    globals, but defined in another module - with or without `from __future__ import annotations`."""
    import __future__

    import inspect
    import linecache
    import textwrap

    src = textwrap.dedent(inspect.getsource(f))
    ns = dict(f.__globals__)
    ns["__name__"] = "vf_user_script"
    filename = f"<vf-user-copy-{f.__name__}>"
    flags = __future__.annotations.compiler_flag if postponed else 0
    exec(compile(src, filename, "exec", flags=flags, dont_inherit=True), ns)  # noqa: S102
    linecache.cache[filename] = (len(src), None, src.splitlines(True), filename)
    return ns[f.__name__]


def plus_one(f):
    """User function = internal rule + 1024 (an amount no statutory rounding grid can swallow:
    with `+ 1` a rule rounded down to multiples of 2 or 10 may show no change at all)."""
    @functools.wraps(f)
    def user_function(*args, **kwargs):
        return f(*args, **kwargs) + 1024.0

    return user_function


def strategy(date, ctx):
    params, functions = env.policy_env(date)
    nodes = env.all_nodes(date)
    float_rules = sorted(n for n in nodes if n in functions
                         and functions[n].__annotations__.get("return") is float
                         and not getattr(functions[n], "__info__", {}).get("skip_vectorization", False))
    rules = sorted(n for n in nodes if n in functions)
    rounded = sorted(n for n in rules if "params_key_for_rounding" in getattr(functions[n], "__info__", {}))
    leaf_paths = {g: numeric_paths(params[g], (g,)) for g in INTERNAL_PARAMS_GROUPS}
    all_leaves = [p for g in INTERNAL_PARAMS_GROUPS for p in leaf_paths[g] if len(p) > 1 and p[1] != "rounding"]

    @st.composite
    def s(draw):
        pop = draw(popgen.populations(date, **GEN))
        kind = draw(st.sampled_from(KINDS))
        r = {"kind": kind}
        if kind in ("scale_group", "copy_group"):
            r["group"] = draw(st.sampled_from(INTERNAL_PARAMS_GROUPS))
            r["eps"] = draw(st.sampled_from([0.01, -0.01, 0.1, 1.0]))
        elif kind == "one_leaf":
            r["path"] = list(draw(st.sampled_from(all_leaves)))
            r["eps"] = draw(st.sampled_from([0.01, -0.05, 0.5]))
        elif kind == "clone_rule":
            r["rule"] = draw(st.sampled_from(rules))
        elif kind == "source_copy":
            r["rule"] = draw(st.sampled_from(float_rules))
            r["postponed"] = draw(st.booleans())
        elif kind == "plus_one":
            r["rule"] = draw(st.sampled_from(float_rules))
        elif kind in ("rounding_base", "rounding_offset"):
            r["rule"] = draw(st.sampled_from(rounded))
        if draw(st.booleans()):
            # history on ONE params object: simulate it, edit it in place (all groups or one), simulate it
            # again, and compare with a deep copy taken after the edit
            r["inplace"] = {"scope": draw(st.sampled_from(["all", "all", "one"])),
                            "group": draw(st.sampled_from(INTERNAL_PARAMS_GROUPS)),
                            "eps": draw(st.sampled_from([0.05, -0.1, 0.5]))}
        return _Case((pop, r))

    return s()


def apply_reform(date, r):
    """-> (params, functions, D or None (=nothing may change))"""
    params, functions = env.policy_env(date)
    kind = r["kind"]
    if kind == "copy_all":
        return copy.deepcopy(params), functions, set()
    if kind == "copy_group":
        p2 = dict(params)
        p2[r["group"]] = copy.deepcopy(params[r["group"]])
        return p2, functions, set()
    if kind == "scale_group":
        g = r["group"]
        p2 = copy.deepcopy(params)
        for path in numeric_paths(p2[g], (g,)):
            if len(path) > 1 and path[1] == "rounding":
                continue
            _set(p2, path, scaled(_get(p2, path), r["eps"]))
        return p2, functions, descendants(date, users_of_group(date, g))
    if kind == "one_leaf":
        path = tuple(r["path"])
        p2 = copy.deepcopy(params)
        _set(p2, path, scaled(_get(p2, path), r["eps"]))
        return p2, functions, descendants(date, users_of_group(date, path[0]))
    if kind == "clone_rule":
        f2 = dict(functions)
        f2[r["rule"]] = clone(functions[r["rule"]])
        return params, f2, set()
    if kind == "source_copy":
        f2 = dict(functions)
        f2[r["rule"]] = source_copy(functions[r["rule"]], bool(r.get("postponed")))
        return params, f2, set()
    if kind == "plus_one":
        user = {r["rule"]: plus_one(functions[r["rule"]])}
        return params, [functions, user], descendants(date, {r["rule"]})
    if kind == "rounding_base":
        n = r["rule"]
        g = functions[n].__info__["params_key_for_rounding"]
        p2 = copy.deepcopy(params)
        p2[g]["rounding"][n]["base"] = p2[g]["rounding"][n]["base"] * 10
        return p2, functions, descendants(date, {n})
    if kind == "rounding_offset":
        n = r["rule"]
        g = functions[n].__info__["params_key_for_rounding"]
        p2 = copy.deepcopy(params)
        p2[g]["rounding"][n]["to_add_after_rounding"] = p2[g]["rounding"][n].get("to_add_after_rounding", 0) + 7
        return p2, functions, descendants(date, {n})
    raise ValueError(kind)


def inplace_history(df, date, r, work, base, nodes, stats=None):
    """`work` is a private deep copy of the parameters that was already simulated (-> base).  Edit it in
    place; the result must (a) be that of a deep copy taken after the edit ("parameters by a deep copy
    changes nothing": nothing may be remembered by the identity of the object) and (b) agree with base
    on all columns that do not depend on the edited group."""
    ip = r["inplace"]
    _, functions = env.policy_env(date)
    groups = list(INTERNAL_PARAMS_GROUPS) if ip["scope"] == "all" else [ip["group"]]
    for g in groups:
        for path in numeric_paths(work[g], (g,)):
            if len(path) > 1 and path[1] == "rounding":
                continue
            v = _get(work, path)
            if ip["scope"] == "all":
                # amounts and rates only: integral scalars are mostly ages, counts, years or keys, and a
                # table that cannot be simulated any more shows nothing
                if isinstance(v, np.ndarray):
                    if v.dtype.kind != "f":
                        continue
                elif not isinstance(v, (float, np.floating)) or float(v).is_integer():
                    continue
            _set(work, path, scaled(v, ip["eps"]))
    outs = []
    for p in (work, copy.deepcopy(work)):
        try:
            outs.append(env.simulate(df, env=(p, functions), targets=nodes))
        except Exception as e:  # noqa: BLE001
            outs.append(e)
    a, b = outs
    if isinstance(a, Exception) or isinstance(b, Exception):
        if type(a) is type(b):
            if stats is not None:
                stats["inplace_raises"] = True
            return []  # the scaled parameters are not simulable (both ways alike)
        return [core.Failure("inplace-edit:raises", f"{date}: after editing {ip} in place the same params object and its deep copy "
                             f"behave differently: {type(a).__name__} vs {type(b).__name__}")]
    key = np.arange(len(df))
    fails = []
    diffs = compare.compare_frames(b, a, key_base=key, key_other=key, columns=nodes, exact=True, id_cols_as_partitions=False)
    if diffs:
        d = diffs[0]
        fails.append(core.Failure(f"inplace-edit-vs-deepcopy:{d['column']}",
                                  f"{date}: a params object that was simulated, then edited in place ({ip}), gives {d['column']} = "
                                  f"{d.get('other')} but its deep copy gives {d.get('base')} ({d}); {len(diffs)} node(s)"))
    if ip["scope"] == "one":
        D = descendants(date, users_of_group(date, ip["group"]))
        outside = [n for n in nodes if n not in D]
        diffs = compare.compare_frames(base, a, key_base=key, key_other=key, columns=outside, exact=True,
                                       id_cols_as_partitions=False)
        if diffs:
            d = diffs[0]
            fails.append(core.Failure(f"inplace-edit:{ip['group']}->{d['column']}",
                                      f"{date}: editing group {ip['group']} in place changes {d['column']}, which does not depend on it ({d})"))
    return fails


def check(df, date, r, stats=None):
    nodes = env.all_nodes(date)
    work = None
    if r.get("inplace"):
        work = copy.deepcopy(env.policy_env(date)[0])
        base = env.simulate(df, env=(work, env.policy_env(date)[1]), targets=nodes)
    else:
        base = env.simulate(df, date, targets=nodes)
    params, functions, D = apply_reform(date, r)
    try:
        res = env.simulate(df, env=(params, functions), targets=nodes)
    except Exception as e:  # noqa: BLE001
        if r["kind"] in ("copy_all", "copy_group", "clone_rule", "source_copy"):
            return [core.Failure(f"raises:{r['kind']}", f"{date}: simulation with {r} raises {type(e).__name__}: {e!s:.120}")]
        if stats is not None:
            stats["skipped"] = True
        return []
    key = np.arange(len(df))
    outside = [n for n in nodes if n not in D]
    diffs = compare.compare_frames(base, res, key_base=key, key_other=key, columns=outside, exact=True,
                                   id_cols_as_partitions=False)
    fails = []
    if diffs:
        d = diffs[0]
        tag = r.get("group") or (r.get("path") or [None])[0] or r.get("rule")
        fails.append(core.Failure(f"{r['kind']}:{tag}->{d['column']}",
                                  f"{date}: reform {r} changes {d['column']}, which does not depend on it ({d}); {len(diffs)} node(s)"))
    if work is not None:
        fails.extend(inplace_history(df, date, r, work, base, nodes, stats))
        if stats is not None:
            stats["inplace"] = r["inplace"]["scope"]
    if stats is not None:
        inside = [n for n in nodes if n in D]
        changed = compare.compare_frames(base, res, key_base=key, key_other=key, columns=inside, exact=True,
                                         id_cols_as_partitions=False) if inside else []
        stats.update(n_D=len(inside), n_nodes=len(nodes), changed=len(changed))
        if r["kind"] == "plus_one" and not any(c["column"] == r["rule"] for c in changed):
            fails.append(core.Failure(f"user-function-ignored:{r['rule']}",
                                      f"{date}: the user function for {r['rule']} (internal rule + 1) did not change that column"))
    return fails


def aliasing_scan(date):
    params, _ = env.policy_env(date)
    owner = {}
    fails = []

    def walk(obj, g, path):
        if isinstance(obj, (dict, list, np.ndarray)):
            oid = id(obj)
            if oid in owner and owner[oid][0] != g:
                fails.append(core.Failure(f"alias:{owner[oid][0]}~{g}",
                                          f"{date}: {'.'.join(map(str, owner[oid][1]))} and {'.'.join(map(str, path))} are the same mutable object",
                                          {"date": str(date), "kind": "alias"}))
            owner.setdefault(oid, (g, path))
            if isinstance(obj, dict):
                for k, v in obj.items():
                    walk(v, g, (*path, k))
            elif isinstance(obj, list):
                for i, v in enumerate(obj):
                    walk(v, g, (*path, i))

    for g, v in params.items():
        walk(v, g, (g,))
    return fails


def cross_environment_scan(date):
    """Two separately set-up environments (same date, and a neighbouring date) must not share any
    mutable object: otherwise an in-place reform of one leaks into the other."""
    import datetime as _dt

    e1 = env.fresh_env(date)[0]
    fails = []
    for other_date in (date, date + _dt.timedelta(days=200)):
        e2 = env.fresh_env(other_date)[0]
        seen = {}

        def walk(obj, path, record):
            if isinstance(obj, (dict, list, np.ndarray)):
                if record:
                    seen.setdefault(id(obj), path)
                elif id(obj) in seen:
                    return path, seen[id(obj)]
                if isinstance(obj, dict):
                    for k, v in obj.items():
                        r = walk(v, (*path, k), record)
                        if r:
                            return r
                elif isinstance(obj, list):
                    for i, v in enumerate(obj):
                        r = walk(v, (*path, i), record)
                        if r:
                            return r
            return None

        walk(e1, (), True)
        hit = walk(e2, (), False)
        if hit:
            fails.append(core.Failure("alias-across-environments",
                                      f"{date}: params{list(hit[1])} of one set_up_policy_environment call and params{list(hit[0])} of another call ({other_date}) are the same mutable object",
                                      {"date": str(date), "kind": "alias"}))
            break
    return fails


def prepare(date, ctx, sh):
    for f in aliasing_scan(date) + cross_environment_scan(date):
        if f.key in ctx["known"]:
            sh.known_seen[f.key] += 1
        else:
            sh.failures.append(f)
    sh.classes["aliasing-scan"] += 1


def oracle(case, date, sh, ctx):
    pop, r = case
    stats = {}
    fails = check(pop.df, date, r, stats)
    sh.classes[f"reform:{r['kind']}"] += 1
    if stats.get("skipped"):
        sh.classes["reformed-run-raised(skipped)"] += 1
    if stats.get("inplace"):
        sh.classes[f"inplace-edit-history:{stats['inplace']}" + (":both-runs-raise" if stats.get("inplace_raises") else "")] += 1
    nontriv = False
    if r["kind"] in ("copy_all", "copy_group", "clone_rule", "source_copy"):
        nontriv = len(pop.df) >= 2
    elif stats.get("n_D") and stats["n_D"] < stats["n_nodes"] and stats.get("changed"):
        nontriv = True
    if nontriv:
        sh.nontrivial.add(core.digest([ctx["iso"], r, pop.df["p_id"].tolist(), pop.df["bruttolohn_m"].tolist()]))
    sh.sample({"date": str(date), "reform": r, "dependants": stats.get("n_D"), "changed_in_D": stats.get("changed"),
               "population": popgen.brief(pop.df, max_rows=4)}, limit=3)
    for f in fails:
        if f.key not in ctx["known"]:
            f.case = popcheck.payload(pop.df, date, reform=r)
    return fails


def run(tier, seed, t0):
    return popcheck.run(__name__, tier, seed, t0)


def replay(case):
    import datetime

    if case.get("kind") == "alias":
        d = datetime.date.fromisoformat(case["date"])
        return aliasing_scan(d) + cross_environment_scan(d)
    df, date = popcheck.unpack(case)
    return check(df, date, case["reform"])
