"""C18 -- statutory schedules are well-formed and evaluated exactly.

Finite part (exhaustive): every parameter of type piecewise_* in every parameter file x every
date at which it (or a parameter it deviates from) changes x every interval.
 (i)   thresholds strictly increasing from -inf to +inf (reference schedule and environment);
 (ii)  piecewise_polynomial(x, <environment arrays>) == exact Fraction evaluation of the schedule
       rebuilt from the raw YAML (rel 1e-12 / abs 1e-9), at every threshold +-{0,1,2} ulp, inside
       every interval, at +-10^k, +-0.0, with and without a rates multiplier;
 (iii) income-tax schedule, per interval in exact arithmetic: 0 up to the basic allowance,
       continuous (jump < 1e-6), marginal rate >= 0, non-decreasing within and across pieces
       (convex), <= top rate; cross-checked on the production _eink_st_tarif by sampled triples;
 (iv)  solidarity surcharge: continuous, non-decreasing, <= nominal rate * tax + 0.01.
Sampled part: Hypothesis-drawn arguments per schedule.
"""
from __future__ import annotations

import datetime
import math
from fractions import Fraction

import numpy as np
from hypothesis import strategies as st

from _gettsim.config import INTERNAL_PARAMS_GROUPS
from _gettsim.piecewise_functions import piecewise_polynomial

from .. import core, dates
from ..refmodel import yaml_env as Y

PROP = "C18"
LEVEL = "exploration"
RULE = (
    "finite enumeration of (parameter file, piecewise parameter, change date, interval) plus generated "
    "arguments.  An evaluation is one (schedule, argument) comparison with the exact value.  Non-trivial = "
    "the argument lies within 2 ulp of a threshold, or the interval's coefficients differ from those of "
    "the previous change date; distinct = (group.param, date, interval, kind)."
)
ASSUMPTIONS = [
    "exact reference: Fraction arithmetic on the decimal reading of the YAML literals (vf.refmodel.yaml_env)",
    "'for all real arguments' is reduced to exact per-interval conditions on the coefficients (sufficient for degree <= 2) plus sampled evaluation",
    "right-continuity: a threshold belongs to the interval on its right",
]


def schedules():
    """[(group, param, date)] for every piecewise parameter and every date it can change."""
    out = []
    for g in INTERNAL_PARAMS_GROUPS:
        raw = dates.raw_yaml(g)
        pw = [p for p, v in raw.items() if isinstance(v, dict) and str(v.get("type", "")).startswith("piecewise")]
        if not pw:
            continue
        group_dates = set()
        for p, v in raw.items():
            if isinstance(v, dict):
                group_dates |= {k for k in v if isinstance(k, datetime.date)}
        for p in pw:
            prev = None
            for d in sorted(group_dates):
                v = Y.resolve(g, p, d)
                if v is Y.ABSENT or not Y.is_piecewise(v):
                    continue
                key = repr(sorted((str(k), repr(x)) for k, x in v.items()))
                if key != prev:
                    out.append((g, p, d))
                    prev = key
    return out


def nearby(t):
    t = float(t)
    if math.isinf(t):
        return []
    out = [t]
    up = dn = t
    for _ in range(2):
        up = math.nextafter(up, math.inf)
        dn = math.nextafter(dn, -math.inf)
        out += [up, dn]
    return out


def exact(s: Y.Schedule, x: float, mult=None):
    return s.value(Fraction(x), None if mult is None else Fraction(mult))


def agree(got, exp):
    exp = float(exp)
    got = float(got)
    return abs(got - exp) <= 1e-9 + 1e-12 * max(abs(exp), abs(got))


def check_schedule(g, p, d, env_params, sh, report, prev_sched=None, extra_args=()):
    spec = Y.resolve(g, p, d)
    s = Y.build_schedule(spec, f"{g}.{p}")
    code = env_params[g][p]
    tag = f"{g}.{p}"
    case = {"group": g, "param": p, "date": str(d)}
    # (i) thresholds
    th = s.thresholds
    if not (th[0] == -Y.INF and th[-1] == Y.INF and all(a < b for a, b in zip(th, th[1:]))):
        report(f"thresholds-law:{tag}", f"{d}: thresholds of {tag} in the parameter file are not strictly increasing from -inf to inf: {[float(t) for t in th]}", case)
    if not isinstance(code, dict):
        # date-derived parameter: the environment holds the schedule evaluated at the year
        sh.evaluations += 1
        if not agree(code, exact(s, float(d.year))):
            report(f"value-at-year:{tag}", f"{d}: {tag} in the environment is {code!r}, the schedule at {d.year} gives {float(exact(s, float(d.year)))!r}", case)
        sh.nontrivial.add(f"{tag}|{d}|year|evaluated-at-year")
        return s
    cth = np.asarray(code["thresholds"], dtype=float)
    if not (cth[0] == -np.inf and cth[-1] == np.inf and np.all(np.diff(cth) > 0)):
        report(f"thresholds-env:{tag}", f"{d}: thresholds of {tag} in the environment are not strictly increasing from -inf to inf: {cth.tolist()}", case)
    # (ii) evaluation
    args = []
    for i, t in enumerate(th[1:-1], start=1):
        for x in nearby(t):
            args.append((x, i, "near-threshold"))
        # a ladder of relative offsets on both sides (tolerant comparisons in an interval look-up
        # typically act within 1e-5 .. 1e-9 relative of a threshold)
        tf = float(t)
        for rel in (1e-12, 1e-9, 1e-7, 1e-6, 5e-6, 9e-6, 1e-4):
            step = max(abs(tf), 1.0) * rel
            args.append((tf - step, i, "near-threshold"))
            args.append((tf + step, i, "near-threshold"))
    finite = [float(t) for t in th[1:-1]]
    for i in range(len(th) - 1):
        lo = finite[i - 1] if i >= 1 else (finite[0] - 1000.0 if finite else -1000.0)
        hi = finite[i] if i < len(finite) else (finite[-1] + 100000.0 if finite else 1000.0)
        for frac in (0.25, 0.5, 0.9):
            args.append((lo + frac * (hi - lo), i, "interior"))
    for k in range(0, 9):
        args += [(10.0**k, None, "magnitude"), (-(10.0**k), None, "magnitude")]
    args += [(0.0, None, "zero"), (-0.0, None, "zero")]
    args += [(x, None, "generated") for x in extra_args]
    rates = np.asarray(code["rates"], dtype=float)
    inter = np.asarray(code["intercepts_at_lower_thresholds"], dtype=float)
    for x, i, kind in args:
        sh.evaluations += 1
        try:
            got = piecewise_polynomial(x, thresholds=cth, rates=rates, intercepts_at_lower_thresholds=inter)
        except Exception as e:  # noqa: BLE001
            report(f"raises:{tag}", f"{d}: piecewise_polynomial({x!r}) on {tag} raises {type(e).__name__}: {e}", {**case, "x": x})
            continue
        exp = exact(s, x)
        if not agree(got, exp):
            report(f"value:{tag}", f"{d}: {tag}({x!r}) = {float(got)!r} but the schedule's value is {float(exp)!r} ({kind})", {**case, "x": x})
        if kind == "near-threshold":
            sh.nontrivial.add(f"{tag}|{d}|{i}|near-threshold")
        for mult in (0.5, 0.731, 0.0, 1.0, 2.0):  # the multiplier is a share (Nettoquote): 0 and 1 are ordinary values
            sh.evaluations += 1
            try:
                gm = piecewise_polynomial(x, thresholds=cth, rates=rates, intercepts_at_lower_thresholds=inter.copy(), rates_multiplier=mult)
            except Exception as e:  # noqa: BLE001
                report(f"raises-multiplier:{tag}", f"{d}: piecewise_polynomial({x!r}, rates_multiplier={mult}) on {tag} raises {type(e).__name__}: {e}", {**case, "x": x, "mult": mult})
                continue
            em = exact(s, x, mult)
            if not agree(gm, em):
                report(f"value-multiplier:{tag}", f"{d}: {tag}({x!r}, multiplier {mult}) = {float(gm)!r}, expected {float(em)!r}", {**case, "x": x, "mult": mult})
    if prev_sched is not None:
        for i in range(len(s.lowers)):
            cur = (s.lowers[i], s.uppers[i], s.intercepts[i], tuple(r[i] for r in s.rates))
            old = None
            if i < len(prev_sched.lowers):
                old = (prev_sched.lowers[i], prev_sched.uppers[i], prev_sched.intercepts[i], tuple(r[i] for r in prev_sched.rates))
            if cur != old:
                sh.nontrivial.add(f"{tag}|{d}|{i}|changed-interval")
    else:
        for i in range(len(s.lowers)):
            sh.nontrivial.add(f"{tag}|{d}|{i}|first-version")
    return s


def check_income_tax(s: Y.Schedule, d, env_params, sh, report):
    case = {"group": "eink_st", "param": "eink_st_tarif", "date": str(d), "kind": "tariff"}
    n = len(s.lowers)
    top = s.rates[0][-1]
    if s.intercepts[0] != 0 or any(r[0] != 0 for r in s.rates):
        report("tariff-not-zero-below-allowance", f"{d}: the income-tax schedule is not 0 on its first interval", case)
    prev_right = None
    for i in range(n):
        lo, hi = s.lowers[i], s.uppers[i]
        if i >= 1:
            # continuity at the knot lo
            left = s.intercepts[i - 1] if s.lowers[i - 1] == -Y.INF else s.intercepts[i - 1] + sum(
                r[i - 1] * (lo - s.lowers[i - 1]) ** p for p, r in enumerate(s.rates, start=1))
            if abs(left - s.intercepts[i]) >= Fraction(1, 10**6):
                report("tariff-jump", f"{d}: income-tax schedule jumps by {float(s.intercepts[i] - left)} at {float(lo)}", case)
        if lo == -Y.INF:
            d_lo = s.rates[0][i]
            d_hi = s.rates[0][i]
            if len(s.rates) > 1 and s.rates[1][i] != 0:
                report("tariff-unbounded-quadratic", f"{d}: quadratic term on an interval starting at -inf", case)
        else:
            d_lo = s.derivative(i, lo)
            d_hi = s.derivative(i, hi) if hi != Y.INF else d_lo
            if hi == Y.INF and len(s.rates) > 1 and s.rates[1][i] != 0:
                report("tariff-top-not-linear", f"{d}: the top interval of the income-tax schedule is not linear", case)
        if d_lo < 0 or d_hi < 0:
            report("tariff-decreasing", f"{d}: marginal rate negative on interval {i} ({float(d_lo)}, {float(d_hi)})", case)
        if d_hi < d_lo:
            report("tariff-not-convex-within", f"{d}: marginal rate falls within interval {i} ({float(d_lo)} -> {float(d_hi)})", case)
        if prev_right is not None and d_lo < prev_right - Fraction(1, 10**9):
            report("tariff-not-convex-across", f"{d}: marginal rate falls from {float(prev_right)} to {float(d_lo)} at {float(lo)}", case)
        if d_lo > top or d_hi > top + Fraction(1, 10**9):
            report("tariff-above-top-rate", f"{d}: marginal rate {float(max(d_lo, d_hi))} exceeds the top rate {float(top)} on interval {i}", case)
        prev_right = d_hi
        sh.evaluations += 1
    # production function on sampled triples
    from _gettsim.taxes.eink_st import _eink_st_tarif

    params = env_params["eink_st"]
    xs = sorted({0.0, *[float(t) for t in s.thresholds[1:-1]], *[float(t) + k for t in s.thresholds[1:-1] for k in (-1.0, 1.0, 500.0)],
                 1e4, 5e4, 1e5, 3e5, 1e6})
    vals = [float(_eink_st_tarif(x, params)) for x in xs]
    for (x, fx), (y, fy), (z, fz) in zip(zip(xs, vals), zip(xs[1:], vals[1:]), zip(xs[2:], vals[2:])):
        sh.evaluations += 1
        if fy < fx - 1e-6 or fz < fy - 1e-6:
            report("tariff-production-decreasing", f"{d}: _eink_st_tarif not non-decreasing around {y}", case)
        if y > x and z > y:
            s1 = (fy - fx) / (y - x)
            s2 = (fz - fy) / (z - y)
            if s2 < s1 - 1e-9:
                report("tariff-production-not-convex", f"{d}: _eink_st_tarif secant slope falls from {s1} to {s2} around {y}", case)
            if s2 > float(top) + 1e-9:
                report("tariff-production-above-top", f"{d}: _eink_st_tarif secant slope {s2} exceeds the top rate {float(top)}", case)


def check_soli(s: Y.Schedule, d, env_params, sh, report):
    from _gettsim.taxes.soli_st import _soli_st_tarif

    case = {"group": "soli_st", "param": "soli_st", "date": str(d), "kind": "soli"}
    params = env_params["soli_st"]
    rate = s.rates[0][-1]
    n = len(s.lowers)
    for i in range(1, n):
        lo = s.lowers[i]
        left = s.intercepts[i - 1] if s.lowers[i - 1] == -Y.INF else s.intercepts[i - 1] + s.rates[0][i - 1] * (lo - s.lowers[i - 1])
        if abs(left - s.intercepts[i]) >= Fraction(1, 10**6):
            report("soli-jump", f"{d}: solidarity surcharge schedule jumps by {float(s.intercepts[i] - left)} at {float(lo)}", case)
        if s.rates[0][i] < 0:
            report("soli-decreasing", f"{d}: solidarity surcharge decreasing on interval {i}", case)
    xs = sorted({0.0, 1.0, 100.0, 500.0, 972.0, 1e3, 5e3, 1e4, 2e4, 5e4, 1e5, 1e6,
                 *[float(t) + k for t in s.thresholds[1:-1] for k in (-1.0, -0.01, 0.0, 0.01, 1.0, 100.0)]})
    xs = [x for x in xs if x >= 0]
    prev = None
    for x in xs:
        sh.evaluations += 1
        v = float(_soli_st_tarif(x, params))
        if v > float(rate) * x + 0.01 + 1e-9:
            report("soli-above-rate", f"{d}: _soli_st_tarif({x}) = {v} > {float(rate)} * {x} + 0.01", case)
        if prev is not None and v < prev - 1e-9:
            report("soli-production-decreasing", f"{d}: _soli_st_tarif decreases at {x}", case)
        if not agree(v, exact(s, x)):
            report("soli-production-value", f"{d}: _soli_st_tarif({x}) = {v}, schedule value {float(exact(s, x))}", case)
        prev = v


def shard(desc):
    from _gettsim.policy_environment import set_up_policy_environment
    from hypothesis import HealthCheck, given, seed, settings

    sh = core.Shard()
    known = core.load_known(PROP)
    seen = set()

    def report(key, what, case):
        if key in known:
            sh.known_seen[key] += 1
        elif key not in seen:
            seen.add(key)
            sh.failures.append(core.Failure(key, what, case))

    for iso, items in desc["by_date"].items():
        d = datetime.date.fromisoformat(iso)
        params, _ = set_up_policy_environment(d)
        for g, p, prev_iso in items:
            prev = None
            if prev_iso:
                prev = Y.build_schedule(Y.resolve(g, p, datetime.date.fromisoformat(prev_iso)), f"{g}.{p}")
            # generated arguments (Hypothesis), deterministic per (seed, schedule, date)
            extra = []

            @seed(dates.sub_seed(desc["seed"], PROP, g, p, iso))
            @settings(max_examples=desc["n_generated"], database=None, deadline=None,
                      suppress_health_check=list(HealthCheck))
            @given(st.one_of(st.floats(-1e7, 1e7), st.floats(0, 3e5), st.floats(allow_nan=False, allow_infinity=False)))
            def draw(x):
                extra.append(x)

            draw()
            s = check_schedule(g, p, d, params, sh, report, prev, extra_args=[x for x in extra if abs(x) < 1e12])
            if (g, p) == ("eink_st", "eink_st_tarif"):
                check_income_tax(s, d, params, sh, report)
            if (g, p) == ("soli_st", "soli_st"):
                check_soli(s, d, params, sh, report)
            sh.sample({"schedule": f"{g}.{p}", "date": iso, "thresholds": [float(t) for t in s.thresholds],
                       "rates": [[float(x) for x in r] for r in s.rates]}, limit=2)
            sh.classes[f"{g}.{p}"] += 1
    return sh


def plan(tier, seed):
    sched = schedules()
    prev = {}
    by_date = {}
    for g, p, d in sched:
        by_date.setdefault(d.isoformat(), []).append((g, p, prev.get((g, p))))
        prev[(g, p)] = d.isoformat()
    keys = sorted(by_date)
    n = min(core.NPROC, len(keys))
    return [{"by_date": {k: by_date[k] for k in keys[i::n]}, "seed": seed,
             "n_generated": 60 if tier == "quick" else 3000} for i in range(n)], len(sched)


def run(tier, seed, t0):
    descs, n_sched = plan(tier, seed)
    results = core.run_shards("vf.checks.c18", "shard", descs)
    total, errors = core.merge(results)
    total.extra["schedules_enumerated"] = n_sched
    total.extra["exhaustive_block"] = "every (file, piecewise parameter, change date, interval): thresholds, coefficients conditions and threshold +-2ulp evaluation"
    return core.finish(PROP, tier=tier, seed=seed, level=LEVEL, rule=RULE, assumptions=ASSUMPTIONS, total=total,
                       errors=errors, t0=t0, min_evaluations=1000, min_nontrivial=50)


def replay(case):
    from _gettsim.policy_environment import set_up_policy_environment

    d = datetime.date.fromisoformat(case["date"])
    params, _ = set_up_policy_environment(d)
    sh = core.Shard()
    out = []

    def report(key, what, c):
        if not any(f.key == key for f in out):
            out.append(core.Failure(key, what, c))

    g, p = case["group"], case["param"]
    extra = [case["x"]] if "x" in case else []
    s = check_schedule(g, p, d, params, sh, report, None, extra_args=extra)
    if (g, p) == ("eink_st", "eink_st_tarif"):
        check_income_tax(s, d, params, sh, report)
    if (g, p) == ("soli_st", "soli_st"):
        check_soli(s, d, params, sh, report)
    return out
