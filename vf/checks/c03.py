"""C03 -- each column value equals the scalar rule applied to that row's inputs; dtype = declared type.

Oracle (reference evaluation): simulate with rounding=False and every DAG node as target;
for every node that is a scalar policy rule, call the *raw* Python function once per row on
the production values of its DAG parents (converted to Python scalars exactly the way
numpy.vectorize does) and require exact (NaN-aware) equality with the production column,
plus dtype.kind matching the return annotation.
"""
from __future__ import annotations

import inspect
import math

import numpy as np

from _gettsim.groupings import create_groupings

from .. import core, env, popcheck, popgen

PROP = "C03"
LEVEL = "exploration"
RULE = (
    "case = (date stratum >= 2015 or one of the sampled strata of 2005-2014 with the screened node universe, valid population); for each of the ~250 scalar rules active at "
    "the date the raw function is evaluated row by row on the production parent columns.  "
    "A non-trivial item is a (rule, population) pair in which the rule returns values of two "
    "different Python types across rows or an int/bool literal in the first row of a "
    "float-annotated rule (the situations in which a data-dependent dtype would truncate)."
)
ASSUMPTIONS = [
    "the raw scalar rules (values of the functions dict of set_up_policy_environment) are the reference; aggregation, time-conversion, grouping and skip_vectorization nodes are out of this property's scope (C11-C13)",
    "rounding=False (statutory rounding is C10)",
]
BUDGET = {"quick": (32, 8), "thorough": (None, 50)}
EARLY = 6  # additional strata from 2005-2014 in the quick tier (all of them in the thorough tier)
GEN = dict(mode="branch", max_households=4)

KIND = {float: "f", int: "iu", bool: "b"}


def scalar_rules(date):
    params, functions = env.policy_env(date)
    info = env.dag_info(date)
    groupings = set(create_groupings().values())
    out = {}
    for name in info["computed"]:
        f = functions.get(name)
        if f is None or f in groupings:
            continue
        if getattr(f, "__info__", {}).get("skip_vectorization", False):
            continue
        out[name] = f
    return out, params


def eval_rows(f, params, columns, n):
    sig = list(inspect.signature(f).parameters)
    bound = {a: params[a[: -len("_params")]] for a in sig if a.endswith("_params")}
    args = [a for a in sig if not a.endswith("_params")]
    cols = [np.asanyarray(columns[a], dtype=object) for a in args]
    vals = []
    for i in range(n):
        kw = {a: c[i] for a, c in zip(args, cols)}
        vals.append(f(**kw, **bound))
    return vals


def same(prod, ref):
    if isinstance(prod, np.datetime64) or isinstance(ref, np.datetime64):
        try:
            return bool(np.datetime64(prod) == np.datetime64(ref))
        except Exception:  # noqa: BLE001
            return False
    if hasattr(prod, "item"):
        prod = prod.item()
    if isinstance(ref, (float, np.floating)) and isinstance(prod, (float, np.floating)):
        if math.isnan(ref) and math.isnan(prod):
            return True
    try:
        return bool(prod == ref)
    except Exception:  # noqa: BLE001
        return False


def check(df, date, collect=None):
    rules, params = scalar_rules(date)
    nodes = env.all_nodes(date)
    res = env.simulate(df, date, targets=nodes, rounding=False)
    columns = {c: df[c].to_numpy() for c in df.columns}
    for c in res.columns:
        columns[c] = res[c].to_numpy()
    n = len(df)
    fails = []
    for name, f in rules.items():
        try:
            ref = eval_rows(f, params, columns, n)
        except Exception as e:  # noqa: BLE001
            fails.append(core.Failure(f"scalar-raises:{name}", f"{date}: raw rule {name} raised {type(e).__name__}: {e!s:.100} although production returned"))
            continue
        prod = columns[name]
        ann = f.__annotations__.get("return")
        if collect is not None:
            types = {type(v).__name__ for v in ref}
            if len(types) > 1 or (ann is float and n and isinstance(ref[0], (int, bool)) and not isinstance(ref[0], float)):
                collect.append((name, sorted(types)))
        if ann in KIND and prod.dtype.kind not in KIND[ann]:
            fails.append(core.Failure(f"dtype:{name}", f"{date}: column {name} has dtype {prod.dtype} but the rule is declared -> {ann.__name__}"))
        bad = [i for i in range(n) if not same(prod[i], ref[i])]
        if bad:
            i = bad[0]
            fails.append(core.Failure(f"value:{name}", f"{date}: column {name} row p_id={int(df['p_id'].iloc[i])} holds {prod[i]!r} but the scalar rule returns {ref[i]!r} ({len(bad)} rows)"))
    return fails


def oracle(pop, date, sh, ctx):
    collect = []
    fails = check(pop.df, date, collect)
    pd_ = core.digest(popgen.df_to_plain(pop.df[["p_id", "alter", "bruttolohn_m", "hh_id"]]))
    for name, types in collect:
        sh.nontrivial.add(f"{name}|{pd_}")
        sh.classes[f"mixed-types:{'/'.join(types)}"] += 1
    sh.extra["rules_checked_max"] = max(sh.extra.get("rules_checked_max", 0), len(scalar_rules(date)[0]))
    sh.sample({"date": str(date), "population": popgen.brief(pop.df),
               "rules_with_mixed_python_types": [c[0] for c in collect][:12]}, limit=2)
    for f in fails:
        if f.key not in ctx["known"]:
            f.case = popcheck.payload(pop.df, date)
    return fails


def near_duplicate_shard(desc):
    """Populations of nearly identical persons (the same single person copied with amounts that differ
    by half a cent / one cent / 1e-7 relative): a row's value must not be taken from another row just
    because the two are almost equal."""
    import datetime

    from hypothesis import strategies as st

    from .. import dates as D

    sh = core.Shard()
    known = core.load_known(PROP)
    date = datetime.date.fromisoformat(desc["date"])

    @st.composite
    def strat(draw):
        pop = draw(popgen.populations(date, mode="branch", max_households=1, archetypes=["single", "single", "pensioners"]))
        k = draw(st.integers(2, 4))
        deltas = [draw(st.sampled_from([0.0, 0.005, 0.01, 0.02, 1e-7])) for _ in range(k)]
        return pop, k, deltas

    def oracle(case):
        pop, k, deltas = case
        one = pop.df.iloc[:1].copy()
        for c in popgen.POINTER_COLS:
            one[c] = -1
        one["kind"] = False
        one["alleinerz"] = False
        one["gemeinsam_veranlagt"] = False
        big = popgen.replicate(one, k, seed=len(deltas))
        for i, dlt in enumerate(deltas):
            for c in popgen.MONEY_COLS + ["bruttokaltmiete_m_hh", "heizkosten_m_hh"]:
                v = float(big[c].iloc[i])
                if v > 0:
                    big.loc[big.index[i], c] = v * (1 + dlt) if dlt == 1e-7 else v + dlt
        fails = check(big, date)
        if len(set(deltas)) > 1:
            sh.nontrivial.add("near|" + core.digest([desc["date"], big["bruttolohn_m"].tolist(), deltas]))
        sh.classes["near-identical-persons"] += 1
        sh.sample({"date": desc["date"], "near_identical_persons": int(k), "bruttolohn_m": big["bruttolohn_m"].tolist()}, limit=1)
        for f in fails:
            if f.key not in known:
                f.case = popcheck.payload(big, date)
        return fails

    core.explore(strat(), oracle, n=desc["n"], seed=D.sub_seed(desc["seed"], PROP, "near", desc["date"]), shard=sh,
                 known=known, shrink=False)
    return sh


def run(tier, seed, t0):
    from .. import dates as D

    days = [s_[0].isoformat() for s_ in D.pick(D.strata(), 16 if tier == "quick" else 32, seed, PROP, "near")]
    extra = [("vf.checks.c03", "near_duplicate_shard", [{"date": d, "n": 6 if tier == "quick" else 40, "seed": seed} for d in days])]
    return popcheck.run(__name__, tier, seed, t0, extra_descs=extra)


def replay(case):
    df, date = popcheck.unpack(case)
    return check(df, date)
