"""C15 -- group-level columns have one value per group.

Oracle (invariant): every computed node whose name carries a group suffix is constant within the
groups induced by the matching id column of the same run (NaN == NaN).
"""
from __future__ import annotations

import networkx as nx
import numpy as np
import pandas as pd

from .. import core, env, popcheck, popgen

PROP = "C15"
LEVEL = "exploration"
RULE = (
    "case = (date stratum >= 2015 or one of the sampled strata of 2005-2014 with the screened node universe, population whose household members differ in the individual-level "
    "inputs).  A non-trivial item is a (stratum, group-suffixed node) pair for which some generated "
    "group had >= 2 members that differ in at least one individual-level input among the node's DAG "
    "ancestors; distinct = that pair."
)
ASSUMPTIONS = [
    "groups are those of the same run's id columns (hh_id from the data)",
    "valid populations per DESIGN.md 2.2 with per-person variation of flags and amounts",
]
BUDGET = {"quick": (32, 12), "thorough": (None, 80)}
EARLY = 6  # additional strata from 2005-2014 in the quick tier (all of them in the thorough tier)
GEN = dict(mode="branch", max_households=4)
FLAGS = ["bürgerg_bezug_vorj", "in_priv_krankenv", "arbeitssuchend", "anwartschaftszeit",
         "pflichtbeitr_8_in_10", "schwerbeh_g"]


def diversify(df):
    """Make members of a household differ in individual-level flags / amounts (stays valid)."""
    out = df.copy()
    rank = out.groupby("hh_id").cumcount().to_numpy()
    adult = (out["alter"] >= 18).to_numpy()
    for c in FLAGS:
        out[c] = np.where(adult, (rank % 2 == 0) ^ out[c].to_numpy(), out[c].to_numpy())
    for c in ["bruttolohn_m", "vermögen_bedürft", "kapitaleink_brutto_m", "sonstig_eink_m"]:
        out[c] = np.where(adult | (c == "vermögen_bedürft"), out[c].to_numpy() + rank * 13.37, out[c].to_numpy()).round(2)
    out["bruttolohn_vorj_m"] = np.where(adult, out["bruttolohn_vorj_m"].to_numpy() + rank * 7.5, out["bruttolohn_vorj_m"].to_numpy())
    # pensioner status differs between the adults of a household (disability / early pensions exist
    # at any adult age); keep the retirement date consistent with the flag
    # (only from age 30: a pension that starts at 16 or 17 has an empty reference period and is not
    # an input the pension rules are meant for -- seed 11 produced one, a false alarm of this check)
    second_adult = adult & (out[adult].groupby("hh_id").cumcount().reindex(out.index, fill_value=0).to_numpy() == 1)
    second_adult &= (out["alter"] >= 30).to_numpy()
    year = int(out["geburtsjahr"].iloc[0] + out["alter"].iloc[0])
    out["rentner"] = np.where(second_adult, True, out["rentner"].to_numpy())
    out["jahr_renteneintr"] = np.where(second_adult, np.minimum(out["jahr_renteneintr"].to_numpy(), year - 1), out["jahr_renteneintr"].to_numpy())
    return out


def group_nodes(date):
    info = env.dag_info(date)
    out = []
    for n in info["computed"]:
        g = env.group_of(n)
        if g is not None and not n.endswith("_id"):
            out.append((n, g))
    return out


def ancestors_inputs(date):
    info = env.dag_info(date)
    dag = info["dag"]
    roots = set(info["roots"])
    return {n: sorted(a for a in nx.ancestors(dag, n) if a in roots and env.group_of(a) is None)
            for n, _ in group_nodes(date)}


_ANC = {}


def check(df, date, stats=None):
    nodes = env.all_nodes(date)
    try:
        res = env.simulate(df, date, targets=nodes)
    except Exception as e:  # noqa: BLE001
        # whether a valid population can be simulated at all is C08's / C16's subject, not this one's
        if stats is not None:
            stats.append(f"simulation-raises:{type(e).__name__}")
        return []
    fails = []
    ids = {"hh": df["hh_id"].to_numpy()}
    for g in ("wthh", "fg", "bg", "eg", "ehe", "sn"):
        if f"{g}_id" in res.columns:
            ids[g] = res[f"{g}_id"].to_numpy()
    if stats is not None and date not in _ANC:
        _ANC[date] = ancestors_inputs(date)
    for n, g in group_nodes(date):
        if g not in ids:
            continue
        col = res[n]
        gid = ids[g]
        s = pd.Series(col.to_numpy())
        nun = s.groupby(gid).nunique(dropna=False)
        if (nun > 1).any():
            bad = nun[nun > 1].index[0]
            members = np.flatnonzero(gid == bad)
            fails.append(core.Failure(n, f"{date}: {n} takes {int(nun.max())} different values within one {g}: "
                                      f"{g}_id={bad} p_ids={df['p_id'].to_numpy()[members].tolist()} values={s[members].tolist()}"))
        if stats is not None:
            sizes = pd.Series(gid).value_counts()
            multi = sizes[sizes >= 2].index
            if len(multi):
                anc = _ANC[date].get(n, [])
                if anc:
                    sub = df[anc].copy()
                    sub["__g"] = gid
                    sub = sub[sub["__g"].isin(multi)]
                    if (sub.groupby("__g").nunique(dropna=False) > 1).any().any():
                        stats.append(n)
    # root cause = the most upstream varying node: drop nodes that have a varying ancestor
    if len(fails) > 1:
        dag = env.dag_info(date)["dag"]
        bad = {f.key for f in fails}
        fails = [f for f in fails if not (nx.ancestors(dag, f.key) & bad)]
    return fails


def strategy(date, ctx):
    return popgen.populations(date, **GEN)


def oracle(pop, date, sh, ctx):
    df = diversify(pop.df)
    stats = []
    fails = check(df, date, stats)
    for n in stats:
        if n.startswith("simulation-raises:"):
            sh.classes[n + "(left to C08/C16)"] += 1
        else:
            sh.nontrivial.add(f"{ctx['iso']}|{n}")
    sh.sample({"date": str(date), "population": popgen.brief(df, cols=["p_id", "hh_id", "alter", "bruttolohn_m", "bürgerg_bezug_vorj", "alleinerz", "vermögen_bedürft"])}, limit=2)
    for f in fails:
        if f.key not in ctx["known"]:
            small = popgen.minimize_df(df, lambda d, k=f.key: any(g.key == k for g in check(d, date)))
            f.case = popcheck.payload(small, date)
    return fails


def sweep_shard(desc):
    """Wage sweeps (one household copied along a wage grid, members diversified): drives the
    group-level rules through the benefit regimes, where branches on individual attributes hide."""
    import datetime

    from hypothesis import strategies as st

    from .. import dates as D
    from . import c17

    sh = core.Shard()
    known = core.load_known(PROP)
    date = datetime.date.fromisoformat(desc["date"])
    ctx = {"tier": desc["tier"], "seed": desc["seed"], "iso": desc["date"], "known": known}

    def oracle(case):
        pop, who, top, npts, zero_other, wealth, rent = case
        base = diversify(pop.df)
        sweep, grid, n = c17.build_sweep(base, who, top, npts, zero_other, wealth if not isinstance(wealth, (tuple, list)) else 0.0, rent)
        stats = []
        fails = check(sweep, date, stats)
        for nme in stats:
            if nme.startswith("simulation-raises:"):
                sh.classes[nme + "(left to C08/C16)"] += 1
            else:
                sh.nontrivial.add(f"{desc['date']}|sweep|{nme}")
        sh.classes["sweep-cases"] += 1
        sh.sample({"date": desc["date"], "sweep": True, "archetype": pop.archetypes[0], "household": popgen.brief(base, cols=["p_id", "alter", "rentner", "bruttolohn_m", "kind"])}, limit=1)
        for f in fails:
            if f.key not in known:
                f.case = popcheck.payload(sweep, date)
        return fails

    core.explore(c17.strategy(date, ctx), oracle, n=desc["n"], seed=D.sub_seed(desc["seed"], PROP, "sweep", desc["date"]),
                 shard=sh, known=known, shrink=False)
    return sh


def run(tier, seed, t0):
    from .. import dates as D

    days = [s[0].isoformat() for s in D.pick(D.strata(), 16 if tier == "quick" else 32, seed, PROP, "sweep")]
    extra = [("vf.checks.c15", "sweep_shard", [{"date": d, "n": 3 if tier == "quick" else 12, "seed": seed, "tier": tier} for d in days])]
    return popcheck.run(__name__, tier, seed, t0, extra_descs=extra)


def replay(case):
    df, date = popcheck.unpack(case)
    return check(df, date)
