"""C11 -- group and person-pointer aggregates equal their mathematical definition.

 A  unit level (generated arrays): the seven grouped_* functions, sum_by_p_id and join_numpy
    against a dictionary-based reference in pure Python (math.fsum), both directions (every member
    carries its group's value; the value is computed over exactly the members; conservation of the
    total; count == group size); wrong dtypes raise TypeError; the pointer aggregations that are not
    implemented raise instead of returning something.
 B  interface level (generated populations): automatic sums for every grouping suffix, user
    aggregate_by_group_specs / aggregate_by_p_id_specs incl. names colliding with built-in specs
    and with automatic sums (precedence user > built-in > automatic), compared with the reference
    applied to the run's own source column and id column.
"""
from __future__ import annotations

import math

import numpy as np
import pandas as pd
from hypothesis import strategies as st

from _gettsim import aggregation as agg
from _gettsim.config import SUPPORTED_GROUPINGS
from _gettsim.shared import join_numpy

from .. import core, dates, env, popcheck, popgen
from .c01 import _Case

PROP = "C11"
LEVEL = "exploration"
RULE = (
    "cases: (A) (column of a drawn dtype, group-id / pointer vector) for each aggregation function; (B) (date "
    "stratum >= 2015, population, drawn aggregation specs and suffixed requests).  Non-trivial (A) = at least two "
    "groups with >= 2 members whose rows are not adjacent, resp. a receiver with >= 2 sources and a negative pointer; "
    "(B) = a population with >= 2 multi-member groups of the requested level.  Distinct = digest of the case."
)
ASSUMPTIONS = [
    "numpy backend only (JAX is not installed)",
    "float sums compared with 1e-9 relative tolerance against math.fsum; everything else exactly",
    "ids are non-negative integers < 10^5 (numpy_groupies allocates max(id)+1 cells)",
]
BUDGET = {"quick": (16, 8), "thorough": (None, 40)}
GEN = dict(mode="branch", max_households=4)
KINDS = ["sum", "mean", "max", "min", "any", "all", "count"]


# ---------------------------------------------------------------------------- reference


def ref_group(kind, values, gid):
    members = {}
    for i, g in enumerate(gid):
        members.setdefault(g, []).append(i)
    out = [None] * len(gid)
    for g, idx in members.items():
        vs = [values[i] for i in idx] if values is not None else None
        if kind == "count":
            r = len(idx)
        elif kind == "sum":
            r = math.fsum(float(v) for v in vs) if any(isinstance(v, float) for v in vs) else sum(int(v) for v in vs)
        elif kind == "mean":
            r = math.fsum(vs) / len(vs)
        elif kind == "max":
            r = max(vs)
        elif kind == "min":
            r = min(vs)
        elif kind == "any":
            r = any(bool(v) for v in vs)
        elif kind == "all":
            r = all(bool(v) for v in vs)
        for i in idx:
            out[i] = r
    return out


def ref_sum_by_p_id(values, pointer, p_id):
    pos = {p: i for i, p in enumerate(p_id)}
    isf = any(isinstance(v, float) for v in values)
    acc = [[] for _ in p_id]
    for v, ptr in zip(values, pointer):
        if ptr >= 0:
            acc[pos[ptr]].append(v)
    return [math.fsum(a) if isf else sum(int(v) for v in a) for a in acc]


def eq(got, exp, scale=0.0):
    """Equality; floats within 1e-9 relative to the result plus 1e-12 relative to the sum of the
    absolute summands (`scale`) - naive floating-point summation may cancel, which the property
    ("up to floating-point rounding") allows."""
    if isinstance(exp, float) or isinstance(got, float):
        g, e = float(got), float(exp)
        return g == e or abs(g - e) <= 1e-9 * max(1.0, abs(g), abs(e)) + 1e-12 * scale
    return got == exp


def abs_scale(values, keys):
    """Per row: sum of |v| over the row's group (keys = group id per row)."""
    tot = {}
    for v, k in zip(values, keys):
        if isinstance(v, (int, float)) and not isinstance(v, bool):
            tot[k] = tot.get(k, 0.0) + abs(float(v))
    return [tot.get(k, 0.0) for k in keys]


# ----------------------------------------------------------------------------------- A

FUNCS = {"sum": agg.grouped_sum, "mean": agg.grouped_mean, "max": agg.grouped_max, "min": agg.grouped_min,
         "any": agg.grouped_any, "all": agg.grouped_all}
ALLOWED = {"sum": "fib", "mean": "f", "max": "fiM", "min": "fiM", "any": "ib", "all": "ib"}


@st.composite
def unit_case(draw):
    n = draw(st.integers(1, 24))
    ngroups = draw(st.integers(1, max(1, n)))
    labels = draw(st.lists(st.integers(0, 10**5), min_size=ngroups, max_size=ngroups, unique=True))
    gid = [labels[draw(st.integers(0, ngroups - 1))] for _ in range(n)]
    dtype = draw(st.sampled_from(["f", "f", "i", "i", "i", "b", "M", "U"]))
    if dtype == "f":
        col = draw(st.lists(st.one_of(st.floats(-1e6, 1e6), st.sampled_from([0.0, -0.0, 1e-300, 1e15, -1e15, 0.1, 0.2, 0.3])), min_size=n, max_size=n))
    elif dtype == "i":
        # integer columns come in every width a table can have (e.g. Stata `byte` / `int` -> int8 / int16);
        # every single value fits the width, a group total need not
        width = draw(st.sampled_from(["int64", "int64", "int32", "int16", "int8", "uint8"]))
        info = np.iinfo(width)
        lo, hi = max(int(info.min), -10**6), min(int(info.max), 10**6)
        # values near the ends of the width are frequent, so that two members of a group usually have a
        # total outside the width
        edge = st.sampled_from([hi, hi, hi - 1, hi // 2 + 1, lo, lo, lo + 1, lo // 2 - 1 if lo < 0 else 0])
        col = draw(st.lists(st.one_of(st.integers(lo, hi), edge, edge), min_size=n, max_size=n))
    elif dtype == "b":
        col = draw(st.lists(st.booleans(), min_size=n, max_size=n))
    elif dtype == "M":
        col = draw(st.lists(st.integers(-30000, 20000), min_size=n, max_size=n))  # days since 1970-01-01, also before
    else:
        col = draw(st.lists(st.sampled_from(["a", "b", "c"]), min_size=n, max_size=n))
    # pointers: into a unique p_id vector, with negatives
    p_id = draw(st.lists(st.integers(0, 10**5), min_size=n, max_size=n, unique=True))
    ptr = [draw(st.one_of(st.sampled_from(p_id), st.sampled_from(p_id), st.sampled_from([-1, -1, -2, -7]))) for _ in range(n)]
    out = {"gid": gid, "dtype": dtype, "col": col, "p_id": p_id, "ptr": ptr}
    if dtype == "i":
        out["width"] = width
    return out


def np_col(case):
    d = case["dtype"]
    if d == "f":
        return np.array(case["col"], dtype=case.get("width", "float64"))
    if d == "i":
        return np.array(case["col"], dtype=case.get("width", "int64"))
    if d == "b":
        return np.array(case["col"], dtype="bool")
    if d == "M":
        return (np.datetime64("1970-01-01") + np.array(case["col"], dtype="timedelta64[D]")).astype("datetime64[D]")
    return np.array(case["col"], dtype="U1")


def check_unit(case):
    fails = []
    gid = np.array(case["gid"], dtype="int64")
    col = np_col(case)
    d = case["dtype"]
    pycol = case["col"]
    # grouped_count
    got = agg.grouped_count(gid)
    exp = ref_group("count", None, case["gid"])
    if [int(x) for x in got.tolist()] != exp or not all(float(x) == int(x) for x in got.tolist()):
        fails.append(core.Failure("grouped_count", f"grouped_count({case['gid']}) = {got.tolist()}, expected {exp}"))
    for kind, f in FUNCS.items():
        ok_dtype = d in ALLOWED[kind]
        try:
            got = f(col, gid)
        except TypeError:
            if ok_dtype:
                fails.append(core.Failure(f"grouped_{kind}:raises", f"grouped_{kind} raises TypeError for admissible dtype {col.dtype}"))
            continue
        except Exception as e:  # noqa: BLE001
            fails.append(core.Failure(f"grouped_{kind}:{type(e).__name__}", f"grouped_{kind} on dtype {col.dtype}: {type(e).__name__}: {e!s:.80}"))
            continue
        if not ok_dtype:
            fails.append(core.Failure(f"grouped_{kind}:accepts-{d}", f"grouped_{kind} accepts dtype {col.dtype} and returns {got.tolist()[:5]} instead of raising TypeError"))
            continue
        if d == "M":
            exp = ref_group(kind, pycol, case["gid"])
            gotl = [int(x) for x in got.astype("datetime64[D]").astype("int64").tolist()]
        else:
            exp = ref_group(kind, pycol, case["gid"])
            gotl = got.tolist()
        sc = abs_scale(pycol, case["gid"]) if d == "f" else [0.0] * len(exp)
        if len(gotl) != len(exp) or not all(eq(g, e, s_) for g, e, s_ in zip(gotl, exp, sc)):
            fails.append(core.Failure(f"grouped_{kind}:value", f"grouped_{kind}(col={pycol}, group_id={case['gid']}) = {gotl}, expected {exp}"))
    # sum_by_p_id
    p_id = np.array(case["p_id"], dtype="int64")
    ptr = np.array(case["ptr"], dtype="int64")
    ok = d in "fib"
    try:
        got = agg.sum_by_p_id(col, ptr, p_id)
        if not ok:
            fails.append(core.Failure(f"sum_by_p_id:accepts-{d}", f"sum_by_p_id accepts dtype {col.dtype}"))
        else:
            exp = ref_sum_by_p_id(pycol, case["ptr"], case["p_id"])
            tot = sum(abs(float(v)) for v in pycol) if d == "f" else 0.0
            if not all(eq(g, e, tot) for g, e in zip(got.tolist(), exp)):
                fails.append(core.Failure("sum_by_p_id:value", f"sum_by_p_id(col={pycol}, pointer={case['ptr']}, p_id={case['p_id']}) = {got.tolist()}, expected {exp}"))
    except TypeError:
        if ok:
            fails.append(core.Failure("sum_by_p_id:raises", f"sum_by_p_id raises TypeError for dtype {col.dtype}"))
    # not implemented pointer aggregations must raise
    for name in ("mean_by_p_id", "max_by_p_id", "min_by_p_id", "any_by_p_id", "all_by_p_id"):
        try:
            r = getattr(agg, name)(col, ptr, p_id)
        except (NotImplementedError, TypeError):
            continue
        exp_kind = name.split("_")[0]
        fails.append(core.Failure(f"{name}:returns", f"{name} returned {np.asarray(r).tolist()[:5]} - it is documented as not implemented; if implemented now, extend the reference ({exp_kind})"))
    try:
        r = agg.count_by_p_id(ptr, p_id)
        fails.append(core.Failure("count_by_p_id:returns", f"count_by_p_id returned {np.asarray(r).tolist()[:5]}"))
    except (NotImplementedError, TypeError):
        pass
    # join_numpy
    if d in "fib":
        try:
            got = join_numpy(ptr, p_id, col, col.dtype.type(0) if d != "b" else False)
            exp = [pycol[case["p_id"].index(p)] if p >= 0 else (False if d == "b" else 0) for p in case["ptr"]]
            if not all(eq(g, e) for g, e in zip(got.tolist(), exp)):
                fails.append(core.Failure("join_numpy:value", f"join_numpy(fk={case['ptr']}, pk={case['p_id']}, target={pycol}) = {got.tolist()}, expected {exp}"))
        except Exception as e:  # noqa: BLE001
            fails.append(core.Failure(f"join_numpy:{type(e).__name__}", f"join_numpy raised {type(e).__name__}: {e!s:.80}"))
        # a non-negative foreign key without primary key must be rejected
        missing = max(case["p_id"]) + 1
        try:
            join_numpy(np.array([missing]), p_id, col, 0)
            fails.append(core.Failure("join_numpy:dangling-accepted", "join_numpy accepts a foreign key that matches no primary key"))
        except ValueError:
            pass
    return fails


def nontrivial_unit(case):
    gid = case["gid"]
    groups = {}
    for i, g in enumerate(gid):
        groups.setdefault(g, []).append(i)
    spread = [idx for idx in groups.values() if len(idx) >= 2 and idx[-1] - idx[0] >= len(idx)]
    recv = {}
    for p in case["ptr"]:
        if p >= 0:
            recv[p] = recv.get(p, 0) + 1
    return len(spread) >= 2 or (any(v >= 2 for v in recv.values()) and any(p < 0 for p in case["ptr"]))


def unit_shard(desc):
    sh = core.Shard()
    known = core.load_known(PROP)

    def oracle(case):
        fails = check_unit(case)
        if nontrivial_unit(case):
            sh.nontrivial.add("A|" + core.digest(case))
        sh.classes[f"A-dtype:{case['dtype']}" + (f":{case['width']}" if case.get("width") else "")] += 1
        sh.sample({"sub_check": "A", **{k: (v[:10] if isinstance(v, list) else v) for k, v in case.items()}}, limit=2)
        for f in fails:
            if f.key not in known:
                f.case = {"kind": "A", "case": case}
        return fails

    core.explore(unit_case(), oracle, n=desc["n"], seed=dates.sub_seed(desc["seed"], PROP, "unit", desc["i"]), shard=sh,
                 known=known, shrink=True)
    return sh


# ----------------------------------------------------------------------------------- B

BUILTIN_COLLIDE = ["anz_kinder_hh", "anz_erwachsene_hh", "alleinerz_hh", "anz_rentner_hh"]


def strategy(date, ctx):
    _, functions = env.policy_env(date)
    num_inputs = ["bruttolohn_m", "alter", "kind", "vermögen_bedürft", "rentner", "eink_selbst_m", "weiblich", "grundr_zeiten"]
    float_src = ["bruttolohn_m", "vermögen_bedürft", "eink_selbst_m", "kapitaleink_brutto_m"]
    bool_src = ["kind", "rentner", "weiblich", "in_ausbildung"]
    groups = list(SUPPORTED_GROUPINGS)

    @st.composite
    def s(draw):
        pop = draw(popgen.populations(date, **GEN))
        auto = draw(st.lists(st.tuples(st.sampled_from(num_inputs), st.sampled_from(groups)), min_size=2, max_size=4))
        specs = []
        for _ in range(draw(st.integers(1, 3))):
            kind = draw(st.sampled_from(KINDS))
            g = draw(st.sampled_from(groups))
            if kind == "mean":
                src = draw(st.sampled_from(float_src))
            elif kind in ("any", "all"):
                src = draw(st.sampled_from(bool_src + ["alter"]))
            elif kind in ("max", "min"):
                src = draw(st.sampled_from(float_src + ["alter"]))
            else:
                src = draw(st.sampled_from(float_src + bool_src + ["alter"]))
            name_kind = draw(st.sampled_from(["fresh", "fresh", "collide_builtin", "collide_auto"]))
            if name_kind == "fresh":
                name = f"zz_{kind}_{src}_{g}"
            elif name_kind == "collide_builtin":
                name = draw(st.sampled_from(BUILTIN_COLLIDE))
                g = "hh"
            else:
                name = f"{draw(st.sampled_from(float_src))}_{g}"
            specs.append({"name": name, "aggr": kind, "source_col": src, "group": g})
        byp = {"name": "zz_by_p", "p_id_to_aggregate_by": draw(st.sampled_from(["p_id_kindergeld_empf", "p_id_elternteil_1", "p_id_einstandspartner"])),
               "source_col": draw(st.sampled_from(float_src + bool_src + ["alter"])), "aggr": draw(st.sampled_from(["sum", "sum", "sum", "max", "mean", "any"]))}
        return _Case((pop, auto, specs, byp))

    return s()


def check_interface(df, date, auto, specs, byp, stats=None):
    fails = []
    group_specs = {}
    for sp in specs:
        d = {"aggr": sp["aggr"]}
        if sp["aggr"] != "count":
            d["source_col"] = sp["source_col"]
        group_specs[sp["name"]] = d  # later entries with the same name win, as in a dict
    byp_spec = {byp["name"]: {k: byp[k] for k in ("p_id_to_aggregate_by", "source_col", "aggr")}}
    auto_names = sorted({f"{c}_{g}" for c, g in auto if f"{c}_{g}" not in group_specs})
    targets = sorted(set(group_specs) | set(auto_names) | {f"{g}_id" for g in SUPPORTED_GROUPINGS if g != "hh"})
    res = env.simulate(df, date, targets=targets, aggregate_by_group_specs=group_specs)
    ids = {"hh": df["hh_id"].tolist()}
    for g in SUPPORTED_GROUPINGS:
        if g != "hh":
            ids[g] = res[f"{g}_id"].tolist()

    def pyvals(c):
        return df[c].tolist()

    final = {}
    for sp in specs:
        final[sp["name"]] = sp
    for name, sp in final.items():
        g = next(x for x in SUPPORTED_GROUPINGS if name.endswith(f"_{x}"))
        exp = ref_group(sp["aggr"], None if sp["aggr"] == "count" else pyvals(sp["source_col"]), ids[g])
        got = res[name].tolist()
        if not all(eq(a, b) for a, b in zip(got, exp)):
            fails.append(core.Failure(f"user-group-spec:{sp['aggr']}", f"{date}: user spec {name} = {sp} gives {got[:8]}, reference {exp[:8]} (a colliding built-in / automatic definition may have won)"))
        if stats is not None:
            stats.append((g, ids[g]))
    for name in auto_names:
        g = next(x for x in SUPPORTED_GROUPINGS if name.endswith(f"_{x}"))
        src = name[: -len(g) - 1]
        exp = ref_group("sum", pyvals(src), ids[g])
        got = res[name].tolist()
        if not all(eq(a, b) for a, b in zip(got, exp)):
            fails.append(core.Failure(f"automatic-sum:{g}", f"{date}: {name} = {got[:8]}, sum of {src} over the {g} is {exp[:8]}"))
        if stats is not None:
            stats.append((g, ids[g]))
    # person-pointer spec
    try:
        r2 = env.simulate(df, date, targets=[byp["name"]], aggregate_by_p_id_specs=byp_spec)
        if byp["aggr"] != "sum":
            fails.append(core.Failure(f"by-p-id:{byp['aggr']}:returns", f"{date}: aggregate_by_p_id with aggr={byp['aggr']} returned a column although it is not implemented"))
        else:
            exp = ref_sum_by_p_id(pyvals(byp["source_col"]), df[byp["p_id_to_aggregate_by"]].tolist(), df["p_id"].tolist())
            got = r2[byp["name"]].tolist()
            if not all(eq(a, b) for a, b in zip(got, exp)):
                fails.append(core.Failure("by-p-id:sum", f"{date}: user p_id spec {byp} gives {got[:8]}, reference {exp[:8]}"))
    except NotImplementedError:
        if byp["aggr"] == "sum":
            fails.append(core.Failure("by-p-id:sum-not-implemented", f"{date}: sum by p_id raised NotImplementedError"))
    except TypeError as e:
        if byp["aggr"] == "sum":
            fails.append(core.Failure("by-p-id:sum-typeerror", f"{date}: sum by p_id raised TypeError {e!s:.80}"))
    return fails


def oracle(case, date, sh, ctx):
    pop, auto, specs, byp = case
    stats = []
    fails = check_interface(pop.df, date, auto, specs, byp, stats)
    for g, gid in stats:
        sizes = pd.Series(gid).value_counts()
        if (sizes >= 2).sum() >= 2:
            sh.nontrivial.add("B|" + core.digest([ctx["iso"], g, gid, [s["name"] for s in specs]]))
    for sp in specs:
        sh.classes[f"B-spec:{sp['aggr']}"] += 1
        if not sp["name"].startswith("zz_"):
            sh.classes["B-colliding-name"] += 1
    sh.sample({"sub_check": "B", "date": str(date), "automatic": [list(a) for a in auto], "group_specs": specs, "p_id_spec": byp,
               "population": popgen.brief(pop.df, max_rows=4)}, limit=2)
    for f in fails:
        if f.key not in ctx["known"]:
            f.case = popcheck.payload(pop.df, date, kind="B", auto=[list(a) for a in auto], specs=specs, byp=byp)
    return fails


def run(tier, seed, t0):
    n = 4800 if tier == "quick" else 64000  # unit-level cases are cheap (about 1 ms each)
    extra = [("vf.checks.c11", "unit_shard", [{"n": n // 16, "seed": seed, "i": i} for i in range(16)])]
    return popcheck.run(__name__, tier, seed, t0, extra_descs=extra)


def replay(case):
    if case.get("kind") == "A":
        return check_unit(case["case"])
    df, date = popcheck.unpack(case)
    return check_interface(df, date, [tuple(a) for a in case["auto"]], case["specs"], case["byp"])
