"""C20 -- malformed input data are rejected, and type coercion is lossless.

 F  fault enumeration: (valid population, date, fault class, position) -> the call must raise.
    Fault classes: missing p_id column; duplicate p_id; each of the four foreign keys pointing to an
    absent id / to the own id; each *_hh input varying within a multi-person household; spouses with
    contradictory gemeinsam_veranlagt; each required (DAG-root) column dropped; duplicated column
    label; each input column made non-convertible (fractional value in an int column, 2 in a bool
    column, text, NaN in an int / bool column, bool for a float column); and pairs of faults.
 L  lossless coercion (metamorphic): a valid population whose columns are given in another, losslessly
    convertible dtype (int as integral float, bool as 0/1 int or float, float as int, int32 / float32
    where exact) gives the same results, and a UserWarning names exactly the converted columns.
 U  unit level: (source dtype, target type, values) through the interface's own gate
    (check_series_has_expected_type -> convert_series_to_internal_type): either ValueError or a
    series numerically equal to the input, element by element.
"""
from __future__ import annotations

import datetime
import warnings

import numpy as np
import pandas as pd
from hypothesis import strategies as st

from _gettsim.config import FOREIGN_KEYS, TYPES_INPUT_VARIABLES
from _gettsim.gettsim_typing import check_series_has_expected_type, convert_series_to_internal_type
from _gettsim.interface import compute_taxes_and_transfers

from .. import compare, core, dates, env, popcheck, popgen
from .c01 import _Case

PROP = "C20"
LEVEL = "fault_enumeration"
RULE = (
    "cases: (F) (population, stratum, fault, row/column position) - quick: drawn positions, thorough: every "
    "eligible position of populations with <= 4 rows, plus pairs of faults; (L) (population, dtype variant); "
    "(U) (source dtype, target type, value vector).  Non-trivial (F) = the fault sits in a row that is not "
    "the first row and in a household with >= 2 persons (or is a column-level fault); (L) = at least two "
    "columns converted; (U) = a vector with a value that is not exactly representable in the target type or "
    "at a representability boundary.  Distinct = (fault class, column, row digest)."
)
ASSUMPTIONS = [
    "rejection = any exception instead of a returned frame",
    "targets = DEFAULT_TARGETS (so that every documented input that is a DAG root is 'required')",
    "numeric text columns are convertible (pandas str dtype) and are not counted as a fault; non-numeric text is",
]
BUDGET = {"quick": (16, 5), "thorough": (None, 4)}
GEN = dict(mode="branch", max_households=3)
HH_INPUTS = [c for c in TYPES_INPUT_VARIABLES if c.endswith("_hh")]


# ------------------------------------------------------------------------------ faults


def eligible_faults(df, date):
    """[(class, column, row)] every single fault that can be injected into df."""
    out = [("missing-p_id", "p_id", None), ("duplicate-column", "alter", None)]
    n = len(df)
    roots = env.required_inputs(date)
    for c in roots:
        if c != "p_id":
            out.append(("dropped-required-column", c, None))
    if n >= 2:
        for r in range(n):
            out.append(("duplicate-p_id", "p_id", r))
    for fk in FOREIGN_KEYS:
        for r in range(n):
            out.append(("fk-absent", fk, r))
            out.append(("fk-self", fk, r))
    sizes = df["hh_id"].map(df["hh_id"].value_counts())
    for c in HH_INPUTS:
        if c in df.columns:
            for r in range(n):
                if sizes.iloc[r] >= 2:
                    out.append(("hh-input-varies", c, r))
                    if df[c].dtype.kind == "f":
                        # one member without the value (a left-merged household file), and the smallest
                        # possible deviation
                        out.append(("hh-input-varies-nan", c, r))
                        out.append(("hh-input-varies-ulp", c, r))
    for r in range(n):
        if df["p_id_ehepartner"].iloc[r] >= 0:
            out.append(("contradictory-joint-assessment", "gemeinsam_veranlagt", r))
    for c, t in TYPES_INPUT_VARIABLES.items():
        if c not in df.columns or c not in roots:
            continue
        for r in range(n):
            if t is int:
                out += [("fractional-in-int", c, r), ("nan-in-int", c, r), ("text", c, r)]
            elif t is bool:
                out += [("two-in-bool", c, r), ("nan-in-bool", c, r), ("text", c, r)]
            else:
                out += [("text", c, r), ("bool-for-float", c, r)]
    return out


def inject(df, fault):
    cls, col, r = fault
    d = df.copy()
    if cls == "missing-p_id":
        return d.drop(columns=["p_id"])
    if cls == "duplicate-column":
        extra = d[[col]].copy()
        return pd.concat([d, extra], axis=1)
    if cls == "dropped-required-column":
        return d.drop(columns=[col])
    if cls == "duplicate-p_id":
        other = (r + 1) % len(d)
        d.loc[d.index[r], "p_id"] = d["p_id"].iloc[other]
        return d
    if cls == "fk-absent":
        d.loc[d.index[r], col] = int(d["p_id"].max()) + 17
        return d
    if cls == "fk-self":
        d.loc[d.index[r], col] = d["p_id"].iloc[r]
        return d
    if cls == "hh-input-varies":
        if d[col].dtype == bool:
            d.loc[d.index[r], col] = not bool(d[col].iloc[r])
        else:
            d.loc[d.index[r], col] = d[col].iloc[r] + 1
        return d
    if cls == "hh-input-varies-nan":
        d.loc[d.index[r], col] = np.nan
        return d
    if cls == "hh-input-varies-ulp":
        d.loc[d.index[r], col] = np.nextafter(float(d[col].iloc[r]), -np.inf)
        return d
    if cls == "contradictory-joint-assessment":
        d.loc[d.index[r], col] = not bool(d[col].iloc[r])
        return d
    if cls == "fractional-in-int":
        s = d[col].astype("float64")
        s.iloc[r] = s.iloc[r] + 0.5
        d[col] = s
        return d
    if cls in ("nan-in-int", "nan-in-bool"):
        s = d[col].astype("float64")
        s.iloc[r] = np.nan
        d[col] = s
        return d
    if cls == "two-in-bool":
        s = d[col].astype("int64")
        s.iloc[r] = 2
        d[col] = s
        return d
    if cls == "text":
        s = d[col].astype(str)
        s.iloc[r] = "abc"
        d[col] = s
        return d
    if cls == "bool-for-float":
        d[col] = d[col] > 0
        return d
    raise ValueError(cls)


def rejected(data, date):
    params, functions = env.policy_env(date)
    try:
        with warnings.catch_warnings():
            warnings.simplefilter("ignore")
            compute_taxes_and_transfers(data=data, params=params, functions=functions)
    except Exception as e:  # noqa: BLE001
        return True, type(e).__name__
    return False, None


def check_faults(df, date, faults, sh=None):
    fails = []
    for fault in faults:
        data = df
        try:
            for f in (fault if isinstance(fault[0], tuple) else [fault]):
                data = inject(data, tuple(f))
        except (TypeError, ValueError, KeyError):
            # the second fault of a pair cannot be injected into the table the first one left
            # (e.g. p_id already turned into text): not a case
            if sh is not None:
                sh.classes["F-pair-not-injectable"] += 1
            continue
        ok, exc = rejected(data, date)
        first = fault if not isinstance(fault[0], tuple) else fault[0]
        cls, col, r = first
        label = cls if not isinstance(fault[0], tuple) else f"pair:{fault[0][0]}+{fault[1][0]}"
        if sh is not None:
            sh.evaluations += 1
            sh.classes[f"F-{label}"] += 1
            sizes = df["hh_id"].map(df["hh_id"].value_counts())
            if r is None or (r > 0 and sizes.iloc[r] >= 2):
                sh.nontrivial.add(f"F|{label}|{col}|{core.digest([df['p_id'].tolist(), r])}")
            if exc:
                sh.classes[f"F-rejected-with:{exc}"] += 1
        if not ok:
            key = f"accepted:{label}:{col}" if cls in ("text", "fractional-in-int", "nan-in-int", "two-in-bool", "nan-in-bool", "bool-for-float",
                                                       "dropped-required-column", "hh-input-varies", "hh-input-varies-nan", "hh-input-varies-ulp", "fk-absent", "fk-self") else f"accepted:{label}"
            fails.append(core.Failure(key, f"{date}: data with fault {fault} are simulated instead of rejected",
                                      popcheck.payload(df, date, kind="F", fault=[list(f) if isinstance(f, tuple) else f for f in fault])))
    return fails


# ---------------------------------------------------------------------- lossless variants


def variant(df, date, choice_seed):
    rng = np.random.RandomState(choice_seed)
    d = df.copy()
    converted = []
    roots = set(env.required_inputs(date))
    for c, t in TYPES_INPUT_VARIABLES.items():
        if c not in d.columns:
            continue
        k = rng.randint(0, 4)
        if k == 0:
            continue
        if t is int:
            if k == 1:
                d[c] = d[c].astype("float64")
                converted.append(c)
            elif k == 2 and d[c].abs().max() < 2**31 - 1:
                d[c] = d[c].astype("int32")  # still an integer dtype: no conversion, no warning
        elif t is bool:
            d[c] = d[c].astype("int64" if k == 1 else "float64" if k == 2 else "int8")
            converted.append(c)
        elif t is float:
            v = d[c].to_numpy()
            if k == 1 and np.all(v == np.round(v)) and np.all(np.abs(v) < 2**53):
                d[c] = v.astype("int64")
                converted.append(c)
    return d, converted


def check_lossless(df, date, choice_seed):
    params, functions = env.policy_env(date)
    nodes = env.all_nodes(date)
    base = env.simulate(df, date, targets=nodes)
    d2, converted = variant(df, date, choice_seed)
    fails = []
    with warnings.catch_warnings(record=True) as w:
        warnings.simplefilter("always")
        try:
            res = compute_taxes_and_transfers(data=d2, params=params, functions=functions, targets=nodes)
        except Exception as e:  # noqa: BLE001
            return [core.Failure(f"lossless-variant-rejected:{type(e).__name__}", f"{date}: a losslessly convertible dtype variant is rejected: {e!s:.200}")], converted
    msgs = [str(x.message) for x in w if issubclass(x.category, UserWarning) and "have been converted" in str(x.message)]
    named = set()
    for m in msgs:
        for line in m.splitlines():
            line = line.strip()
            if line.startswith("- ") and " from " in line:
                named.add(line[2:].split(" from ")[0])
    if converted and not msgs:
        fails.append(core.Failure("conversion-not-announced", f"{date}: columns {converted[:5]} were converted without a warning"))
    elif set(converted) != named:
        fails.append(core.Failure("conversion-warning-incomplete", f"{date}: converted {sorted(converted)[:8]} but the warning names {sorted(named)[:8]}"))
    key = np.arange(len(df))
    diffs = compare.compare_frames(base, res, key_base=key, key_other=key, columns=nodes)
    if diffs:
        dd = diffs[0]
        fails.append(core.Failure(f"lossless-variant-changes:{dd['column']}", f"{date}: results change when columns are supplied in a losslessly convertible dtype ({dd}); {len(diffs)} node(s)"))
    return fails, converted


# ------------------------------------------------------------------------------ driver


def strategy(date, ctx):
    thorough = ctx["tier"] == "thorough"

    @st.composite
    def s(draw):
        pop = draw(popgen.populations(date, **(dict(GEN, max_households=2) if thorough else GEN)))
        allf = eligible_faults(pop.df, date)
        if thorough and len(pop.df) <= 4:
            chosen = allf
        else:
            by_cls = {}
            for f in allf:
                by_cls.setdefault(f[0], []).append(f)
            chosen = [draw(st.sampled_from(v)) for v in by_cls.values()]
            chosen += [draw(st.sampled_from(allf)) for _ in range(10)]
        pairs = [(draw(st.sampled_from(allf)), draw(st.sampled_from(allf))) for _ in range(6 if not thorough else 30)]
        pairs = [p for p in pairs if p[0][1] != p[1][1] and "missing-p_id" not in (p[0][0], p[1][0])]
        vs = draw(st.integers(0, 2**31 - 1))
        return _Case((pop, chosen, pairs, vs))

    return s()


def oracle(case, date, sh, ctx):
    pop, chosen, pairs, vs = case
    fails = check_faults(pop.df, date, chosen + pairs, sh)
    lf, converted = check_lossless(pop.df, date, vs)
    sh.evaluations += 1
    sh.classes["L-variants"] += 1
    if len(converted) >= 2:
        sh.nontrivial.add("L|" + core.digest([pop.df["p_id"].tolist(), vs]))
    for f in lf:
        f.case = popcheck.payload(pop.df, date, kind="L", vs=vs)
    sh.sample({"date": str(date), "faults": [list(map(str, f)) for f in chosen[:6]], "pairs": str(pairs[:2]), "converted_columns": converted[:8],
               "population": popgen.brief(pop.df, max_rows=4)}, limit=2)
    return fails + lf


# ---- U: unit-level conversion -------------------------------------------------------

SRC = ["int8", "int16", "int32", "int64", "uint8", "uint32", "uint64", "float16", "float32", "float64", "bool"]


@st.composite
def unit_case(draw):
    src = draw(st.sampled_from(SRC))
    target = draw(st.sampled_from(["float", "int", "bool"]))
    n = draw(st.integers(1, 6))
    if src.startswith(("int", "uint")):
        info = np.iinfo(src)
        vals = draw(st.lists(st.one_of(st.integers(int(info.min), int(info.max)), st.sampled_from([0, 1]),
                                       st.sampled_from([v for v in (2**53, 2**53 + 1, 2**53 - 1, -(2**53) - 1, 2**63 - 1, 2**24 + 1) if info.min <= v <= info.max] or [0])),
                             min_size=n, max_size=n))
    elif src == "bool":
        vals = draw(st.lists(st.booleans(), min_size=n, max_size=n))
    else:
        vals = draw(st.lists(st.one_of(st.floats(width=int(src[5:]), allow_nan=True, allow_infinity=True),
                                       st.sampled_from([0.0, 1.0, -0.0, 2.0, 0.5, 1e15, 2.0**53, 1e-7, 3.0])), min_size=n, max_size=n))
    return {"src": src, "target": target, "vals": vals}


def check_unit(case):
    t = {"float": float, "int": int, "bool": bool}[case["target"]]
    s = pd.Series(np.array(case["vals"], dtype=case["src"]))
    try:
        if check_series_has_expected_type(s, t):
            out = s
        else:
            with warnings.catch_warnings():
                warnings.simplefilter("ignore")
                out = convert_series_to_internal_type(s, t)
    except ValueError:
        return [], "rejected"
    except Exception as e:  # noqa: BLE001
        return [core.Failure(f"convert-raises:{type(e).__name__}", f"conversion {case['src']} -> {case['target']} of {case['vals']} raises {type(e).__name__} (not ValueError): {e!s:.100}")], "error"
    fails = []
    for a, b in zip(s.tolist(), out.tolist()):
        same = (a == b) or (isinstance(a, float) and isinstance(b, float) and np.isnan(a) and np.isnan(b))
        if isinstance(a, bool) or isinstance(b, bool):
            same = same and (int(a) == int(b))
        if not same:
            fails.append(core.Failure(f"value-changed:{_kind(case['src'])}->{case['target']}",
                                      f"conversion {case['src']} -> {case['target']} turns {a!r} into {b!r} without raising"))
            break
    return fails, "converted"


def _kind(src):
    return "int" if src.startswith(("int", "uint")) else "float" if src.startswith("float") else src


def unit_shard(desc):
    sh = core.Shard()
    known = core.load_known(PROP)

    def oracle(case):
        fails, status = check_unit(case)
        sh.classes[f"U-{status}"] += 1
        vals = case["vals"]
        if any(isinstance(v, int) and not isinstance(v, bool) and abs(v) >= 2**53 for v in vals) or any(isinstance(v, float) and v != v or (isinstance(v, float) and v != int(v) if isinstance(v, float) and abs(v) < 1e18 and v == v else False) for v in vals):
            sh.nontrivial.add("U|" + core.digest(case))
        sh.sample({"sub_check": "U", **case}, limit=1)
        for f in fails:
            if f.key not in known:
                f.case = {"kind": "U", "case": case}
        return fails

    core.explore(unit_case(), oracle, n=desc["n"], seed=dates.sub_seed(desc["seed"], PROP, "unit", desc["i"]), shard=sh,
                 known=known, shrink=True)
    return sh


def run(tier, seed, t0):
    n = 4000 if tier == "quick" else 200000
    extra = [("vf.checks.c20", "unit_shard", [{"n": n // 8, "seed": seed, "i": i} for i in range(8)])]
    return popcheck.run(__name__, tier, seed, t0, extra_descs=extra, exhaustive=False)


def replay(case):
    kind = case.get("kind")
    if kind == "U":
        return check_unit(case["case"])[0]
    df, date = popcheck.unpack(case)
    if kind == "L":
        return check_lossless(df, date, case["vs"])[0]
    fault = case["fault"]
    fault = tuple(tuple(f) for f in fault) if isinstance(fault[0], list) else tuple(fault)
    return check_faults(df, date, [fault])
