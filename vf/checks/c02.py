"""C02 -- unrelated households do not influence each other; relabelling ids changes only labels.

Oracles: (a) simulate(A ++ B) restricted to A == simulate(A) on all DAG nodes, for closed
populations A, B with disjoint ids in a drawn interleaving; (b) simulate(rho(A)) ==
simulate(A) row by row for an injective relabelling rho of p_id / hh_id applied to all
pointer columns (group ids as partitions).
"""
from __future__ import annotations

import numpy as np
import pandas as pd
from hypothesis import strategies as st

from .. import compare, core, env, popcheck, popgen
from .c01 import _Case, _topo

PROP = "C02"
LEVEL = "exploration"
RULE = (
    "case = (date stratum >= 2015 or one of the sampled strata of 2005-2014 with the screened node universe, closed populations A and B, interleaving, relabelling rho). "
    "Non-trivial (a): B has a multi-person household and a B-row precedes the first A-row; "
    "(b): rho is not order-preserving on p_id.  Distinct = digest of the case."
)
ASSUMPTIONS = [
    "valid populations per DESIGN.md 2.2; ids < 10^6 (p_id) / 10^4 (hh_id) as numpy_groupies allocates max(id)+1 cells",
    "float columns: 1e-9 relative; ids as partitions; everything else exact incl. dtype kind",
]
BUDGET = {"quick": (32, 7), "thorough": (None, 40)}
EARLY = 6  # additional strata from 2005-2014 in the quick tier (all of them in the thorough tier)
GEN = dict(mode="branch", max_households=3)


def relabel(df, pmap, hmap):
    out = df.copy()
    out["p_id"] = [pmap[int(v)] for v in df["p_id"]]
    out["hh_id"] = [hmap[int(v)] for v in df["hh_id"]]
    for c in popgen.POINTER_COLS:
        out[c] = [pmap[int(v)] if v >= 0 else int(v) for v in df[c]]
    for c in ["p_id", "hh_id", *popgen.POINTER_COLS]:
        out[c] = out[c].astype("int64")
    return out


def strategy(date, ctx):
    @st.composite
    def s(draw):
        a = draw(popgen.populations(date, **GEN))
        b = draw(popgen.populations(date, **GEN))
        na, nb = len(a.df), len(b.df)
        # make B's ids disjoint from A's
        used_p = set(a.df["p_id"].tolist())
        used_h = set(a.df["hh_id"].tolist())
        newp = draw(st.lists(st.integers(0, 999_999).filter(lambda v: v not in used_p),
                             min_size=nb, max_size=nb, unique=True))
        bh = sorted(set(b.df["hh_id"].tolist()))
        newh = draw(st.lists(st.integers(0, 9_999).filter(lambda v: v not in used_h),
                             min_size=len(bh), max_size=len(bh), unique=True))
        bdf = relabel(b.df, dict(zip(b.df["p_id"].tolist(), newp)), dict(zip(bh, newh)))
        # interleaving that keeps the relative order inside A and inside B (row-order
        # dependence is C01's subject; here only the presence of B may matter)
        a_slots = sorted(draw(st.lists(st.integers(0, na + nb - 1), min_size=na, max_size=na,
                                       unique=True)))
        b_slots = [i for i in range(na + nb) if i not in set(a_slots)]
        order = [0] * (na + nb)
        for k, slot in enumerate(a_slots):
            order[slot] = k
        for k, slot in enumerate(b_slots):
            order[slot] = na + k
        # relabelling of A
        rp = draw(st.lists(st.integers(0, 999_999), min_size=na, max_size=na, unique=True))
        ah = sorted(set(a.df["hh_id"].tolist()))
        rh = draw(st.lists(st.integers(0, 9_999), min_size=len(ah), max_size=len(ah), unique=True))
        if draw(st.booleans()):
            # the smallest valid identifiers (0, 1) are ordinary p_ids: give them to drawn persons
            i0 = draw(st.integers(0, na - 1))
            if 0 not in rp:
                rp[i0] = 0
            if na > 1 and 1 not in rp:
                rp[(i0 + 1) % na] = 1
        elif draw(st.integers(0, 3)) == 0:
            # very large identifiers on a binary grid (10+ digits, multiples of 2**32 or 2**31, or just below
            # 2**62): arithmetic on identifiers (pair keys, products, float conversion) wraps or collides there
            shift = draw(st.sampled_from([32, 32, 31, 40]))
            ks = draw(st.lists(st.integers(1, 4 * na + 4), min_size=na, max_size=na, unique=True))
            rp = [(k << shift) if shift != 40 else (2**62 - (k << 20)) for k in ks]
        elif draw(st.booleans()):  # order-reversing map
            srt = sorted(rp, reverse=True)
            ranks = np.argsort(np.argsort(a.df["p_id"].to_numpy()))
            rp = [srt[r] for r in ranks]
        return _Case((a, bdf, [int(i) for i in order], rp, rh))

    return s()


def check(adf, bdf, order, rp, rh, date):
    nodes = _topo(date)
    base = env.simulate(adf, date, targets=nodes)
    fails = []
    # (a) separability
    joint = pd.concat([adf, bdf], ignore_index=True).iloc[order].reset_index(drop=True)
    res = env.simulate(joint, date, targets=nodes)
    is_a = joint["p_id"].isin(set(adf["p_id"].tolist())).to_numpy()
    res_a = res[is_a].reset_index(drop=True)
    diffs = compare.compare_frames(base, res_a, key_base=adf["p_id"].to_numpy(),
                                   key_other=joint["p_id"].to_numpy()[is_a], columns=nodes)
    if diffs:
        d = diffs[0]
        fails.append(core.Failure(f"sep-{d['kind']}:{d['column']}",
                                  f"{date}: {d['column']} of A changes when B is added ({d}); {len(diffs)} node(s)"))
    # (b) relabelling
    ah = sorted(set(adf["hh_id"].tolist()))
    pmap = dict(zip(adf["p_id"].tolist(), rp))
    rdf = relabel(adf, pmap, dict(zip(ah, rh)))
    res2 = env.simulate(rdf, date, targets=nodes)
    # rows are in the same order: compare positionally via identical keys
    cols = [c for c in nodes if not c.startswith("p_id")]
    diffs = compare.compare_frames(base, res2, key_base=np.arange(len(adf)),
                                   key_other=np.arange(len(adf)), columns=cols)
    # pointer-valued computed nodes must be relabelled consistently
    for c in [c for c in nodes if c.startswith("p_id")]:
        exp = [pmap[int(v)] if v >= 0 else int(v) for v in base[c]]
        if list(res2[c]) != exp:
            diffs.append({"column": c, "kind": "pointer-relabel"})
    if diffs:
        d = diffs[0]
        fails.append(core.Failure(f"relabel-{d['kind']}:{d['column']}",
                                  f"{date}: {d['column']} changes under relabelling of ids ({d}); {len(diffs)} node(s)"))
    return fails, joint, is_a


def oracle(case, date, sh, ctx):
    a, bdf, order, rp, rh = case
    fails, joint, is_a = check(a.df, bdf, order, rp, rh, date)
    first_a = int(np.flatnonzero(is_a)[0])
    b_multi = bool(bdf["hh_id"].value_counts().max() >= 2)
    if first_a > 0 and b_multi:
        sh.nontrivial.add("sep:" + core.digest([a.df["p_id"].tolist(), bdf["p_id"].tolist(), order]))
        sh.classes["nontrivial-separability"] += 1
    ranks_old = np.argsort(np.argsort(a.df["p_id"].to_numpy()))
    ranks_new = np.argsort(np.argsort(np.asarray(rp)))
    if not np.array_equal(ranks_old, ranks_new):
        sh.nontrivial.add("rel:" + core.digest([a.df["p_id"].tolist(), rp, rh]))
        sh.classes["nontrivial-relabel"] += 1
    sh.sample({"date": str(date), "A": popgen.brief(a.df, max_rows=5), "B_p_ids": bdf["p_id"].tolist()[:8],
               "order": order[:16], "relabel_p_id": rp[:8]}, limit=2)
    for f in fails:
        if f.key not in ctx["known"]:
            f.case = {"date": str(date), "A": popgen.df_to_plain(a.df), "B": popgen.df_to_plain(bdf),
                      "order": order, "rp": rp, "rh": rh}
    return fails


def large_shard(desc):
    """Large joint table: A (small) simulated alone and together with a B of > 1000 rows built from
    many relabelled copies of generated households (incl. children covering their own needs), B first.
    Reaches size-dependent code paths (global counters, dense/sparse switches)."""
    import datetime

    from .. import dates as D

    sh = core.Shard()
    known = core.load_known(PROP)
    date = datetime.date.fromisoformat(desc["date"])

    @st.composite
    def strat(draw):
        a = draw(popgen.populations(date, **GEN))
        b = draw(popgen.populations(date, mode="branch", max_households=2, archetypes=["adult_child", "adult_child", "couple_kids", "single_parent"]))
        return _Case((a, b))

    def oracle(case):
        a, b = case
        bdf = b.df.copy()
        young = (bdf["alter"] < 25) & (bdf["alter"] >= 18) & (bdf["p_id_einstandspartner"] < 0) & (bdf["p_id_elternteil_1"] >= 0)
        bdf.loc[young, "eigenbedarf_gedeckt"] = True
        k = -(-desc["rows"] // len(bdf))
        big = popgen.replicate(bdf, k, seed=desc["seed"] % 2**31)
        # disjoint ids: shift B above A's ids
        off_p = int(a.df["p_id"].max()) + 1
        off_h = int(a.df["hh_id"].max()) + 1
        big["p_id"] += off_p
        big["hh_id"] += off_h
        for c in popgen.POINTER_COLS:
            big[c] = np.where(big[c] >= 0, big[c] + off_p, big[c])
        if big["p_id"].max() >= 10**6 or big["hh_id"].max() >= 10**5:
            return []
        na, nb = len(a.df), len(big)
        order = list(range(na, na + nb)) + list(range(na))  # B first, then A
        rp = list(range(na))
        rh = list(range(len(set(a.df["hh_id"].tolist()))))
        fails, joint, is_a = check(a.df, big, order, [int(v) for v in np.random.RandomState(1).permutation(10**5)[:na]], rh, date)
        sh.nontrivial.add("large|" + core.digest([desc["date"], a.df["p_id"].tolist(), nb]))
        sh.classes["large-joint-table(>1000 rows)"] += 1
        sh.classes[f"own-needs-children-in-B>={min(int(big['eigenbedarf_gedeckt'].sum()) // 100 * 100, 300)}"] += 1
        sh.sample({"date": desc["date"], "rows_B": int(nb), "A": popgen.brief(a.df, max_rows=3)}, limit=1)
        for f in fails:
            if f.key not in known:
                f.case = {"date": str(date), "A": popgen.df_to_plain(a.df), "B": popgen.df_to_plain(big), "order": order,
                          "rp": [int(v) for v in np.random.RandomState(1).permutation(10**5)[:na]], "rh": rh}
        return fails

    core.explore(strat(), oracle, n=desc["n"], seed=D.sub_seed(desc["seed"], PROP, "large", desc["date"]), shard=sh,
                 known=known, shrink=False)
    return sh


def run(tier, seed, t0):
    from .. import dates as D

    days = [s[0].isoformat() for s in D.pick(D.strata(), 4 if tier == "quick" else 16, seed, PROP, "large")]
    extra = [("vf.checks.c02", "large_shard", [{"date": d, "rows": 1100, "n": 1 if tier == "quick" else 3,
                                                "seed": D.sub_seed(seed, "large", d)} for d in days])]
    return popcheck.run(__name__, tier, seed, t0, extra_descs=extra)


def replay(case):
    import datetime

    date = datetime.date.fromisoformat(case["date"])
    fails, _, _ = check(popgen.df_from_plain(case["A"]), popgen.df_from_plain(case["B"]),
                        case["order"], case["rp"], case["rh"], date)
    return fails
