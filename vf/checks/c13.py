"""C13 -- time-unit variants of a column differ exactly by the fixed factors.

Sub-checks (all against the documented factors 12 months, 365.25/7 weeks, 365.25 days per year):
 A  unit level: the twelve converters equal x * factor ratio and every round trip is the identity
    (2 ulp), on generated floats incl. 0, huge, subnormal;
 B1 every node <base>_<u>[_<g>] of the DAG, requested together with its three other unit variants:
    x_y == 12 x_m == (365.25/7) x_w == 365.25 x_d (1e-12 relative);
 B2 conversion commutes with group summation: for individual-level flow nodes the automatic sum
    x_<u>_<g> equals the reference group sum of x_<u> and 12 * x_m_<g> == x_y_<g>;
 B3 metamorphic: supplying an input in another time unit (value converted with the reference
    factor) reproduces every node;
 B4 the four unit variants of a computed flow column as sources of a user person-pointer sum
    (aggregate_by_p_id_specs) are all available and differ by the same factors.
"""
from __future__ import annotations

import math
import re

import numpy as np
import pandas as pd
from hypothesis import strategies as st

from _gettsim import time_conversion as tc
from _gettsim.config import SUPPORTED_GROUPINGS, TYPES_INPUT_VARIABLES

from .. import compare, core, dates, env, popcheck, popgen
from .c01 import _Case

PROP = "C13"
LEVEL = "exploration"
RULE = (
    "cases: (A) floats x for each of the 12 converters; (B) (date stratum >= 2015, population, a set of "
    "time-suffixed DAG nodes / inputs).  A distinct non-trivial item is a (stratum, column name, sub-check) "
    "triple whose column was not identically zero in the generated population (so the factor is visible), "
    "resp. a float with |x| > 0 for (A)."
)
ASSUMPTIONS = [
    "factors: 12 months, 365.25/7 weeks, 365.25 days per year (GEP 4 / time_conversion docstrings)",
    "B3 compares simulate(x_w := ref(x_m)) with simulate(x_m := ref_back(x_w)): both runs see the same real number up to 1 ulp, so a threshold cannot amplify the conversion error",
    "1e-12 relative for pure conversions, 1e-9 for whole simulations",
]
BUDGET = {"quick": (32, 6), "thorough": (None, 30)}
GEN = dict(mode="branch", max_households=3)  # branch mode: amounts at thresholds, rental and capital losses
PER_Y = {"y": 1.0, "m": 12.0, "w": 365.25 / 7, "d": 365.25}
_UNIT = re.compile(r"(?P<base>.*_)(?P<u>[ymwd])(?P<g>_(?:%s))?$" % "|".join(SUPPORTED_GROUPINGS))
INPUT_FLOWS = [c for c, t in TYPES_INPUT_VARIABLES.items() if t is float and _UNIT.match(c)]


def variants(name):
    m = _UNIT.match(name)
    if not m:
        return None
    return {u: f"{m.group('base')}{u}{m.group('g') or ''}" for u in "ymwd"}, m.group("u")


def flow_nodes(date):
    info = env.dag_info(date)
    return [n for n in info["computed"] if _UNIT.match(n)], [n for n in info["roots"] if _UNIT.match(n)]


def strategy(date, ctx):
    nodes, roots = flow_nodes(date)
    indiv = [n for n in nodes if env.group_of(n) is None]
    k = 10 if ctx["tier"] == "quick" else 30

    @st.composite
    def s(draw):
        pop = draw(popgen.populations(date, **GEN))
        chosen = sorted(set(draw(st.lists(st.sampled_from(nodes + roots), min_size=k, max_size=k))))
        sums = sorted(set(draw(st.lists(st.tuples(st.sampled_from(indiv), st.sampled_from(list(SUPPORTED_GROUPINGS))),
                                        min_size=3, max_size=3))))
        swap = draw(st.lists(st.tuples(st.sampled_from(INPUT_FLOWS), st.sampled_from("ymwd")), min_size=1, max_size=3,
                             unique_by=lambda t: t[0]))
        return _Case((pop, chosen, sums, swap))

    return s()


def ref_group_sum(values, gid):
    acc = {}
    for v, g in zip(values.tolist(), gid.tolist()):
        acc.setdefault(g, []).append(float(v))
    tot = {g: math.fsum(vs) for g, vs in acc.items()}
    return np.array([tot[g] for g in gid.tolist()])


def close(a, b, rtol):
    a = np.asarray(a, dtype=float)
    b = np.asarray(b, dtype=float)
    return np.abs(a - b) <= rtol * np.maximum(1.0, np.maximum(np.abs(a), np.abs(b)))


def check(df, date, chosen, sums, swap, stats=None):
    info = env.dag_info(date)
    _, functions = env.policy_env(date)
    nodes = env.all_nodes(date)
    fails = []
    # B1: all four variants of the chosen names
    targets = set()
    fam = {}
    for n in chosen:
        v, u = variants(n)
        fam[n] = (v, u)
        targets |= {x for x in v.values() if x not in df.columns}
    sum_names = {}
    for n, g in sums:
        v, u = variants(n)
        if env.group_of(n) is None:
            names = {uu: f"{v[uu]}_{g}" for uu in "ymwd"}
            if all(x not in functions and x not in df.columns for x in names.values()):
                sum_names[(n, g)] = names
                targets |= set(names.values()) | {x for x in v.values() if x not in df.columns}
    gid_nodes = {f"{g}_id" for (_, g) in sum_names if g != "hh"}
    try:
        res = env.simulate(df, date, targets=sorted(targets | gid_nodes))
    except Exception as e:  # noqa: BLE001
        return [core.Failure(f"variants-unavailable:{type(e).__name__}", f"{date}: requesting unit variants {sorted(targets)[:6]}... raises {type(e).__name__}: {e!s:.200}")]

    def col(name):
        return (res[name] if name in res.columns else df[name]).to_numpy().astype(float)

    for n, (v, u) in fam.items():
        yearly = {uu: col(v[uu]) * PER_Y[uu] for uu in "ymwd"}
        for uu in "mwd":
            ok = close(yearly[uu], yearly["y"], 1e-12)
            if not ok.all():
                i = int(np.flatnonzero(~ok)[0])
                fails.append(core.Failure(f"factor:{v[uu]}", f"{date}: {v[uu]}*{PER_Y[uu]} = {yearly[uu][i]} but {v['y']} = {yearly['y'][i]} (p_id={int(df['p_id'].iloc[i])})"))
        if stats is not None and np.any(yearly["y"] != 0):
            stats.append(f"B1|{n}")
    for (n, g), names in sum_names.items():
        v, _ = variants(n)
        gid = df["hh_id"].to_numpy() if g == "hh" else res[f"{g}_id"].to_numpy()
        for uu in "ymwd":
            exp = ref_group_sum(col(v[uu]), gid)
            got = col(names[uu])
            ok = close(got, exp, 1e-9)
            if not ok.all():
                i = int(np.flatnonzero(~ok)[0])
                fails.append(core.Failure(f"sum-commutes:{names[uu]}", f"{date}: {names[uu]} = {got[i]} but the sum of {v[uu]} over the {g} is {exp[i]}"))
        ok = close(col(names["y"]), 12 * col(names["m"]), 1e-12)
        if not ok.all():
            fails.append(core.Failure(f"factor:{names['m']}", f"{date}: {names['y']} != 12*{names['m']}"))
        if stats is not None and np.any(col(names["y"]) != 0):
            stats.append(f"B2|{n}_{g}")
    # B4: every unit variant of a computed flow column can be the source of a person-pointer aggregate
    # (user specification), and the four aggregates differ by the same factors
    for (n, g) in list(sums)[:1]:
        v, _ = variants(n)
        if env.group_of(n) is not None or any(x in df.columns for x in v.values()):
            continue
        if not any(x in functions for x in v.values()):
            # only policy rules: a person-pointer aggregate of a (converted) person-pointer aggregate is a
            # chain the loader does not build and nothing documents
            continue
        specs = {f"vfagg{uu}x": {"p_id_to_aggregate_by": "p_id_kindergeld_empf", "source_col": v[uu], "aggr": "sum"} for uu in "ymwd"}
        try:
            r4 = env.simulate(df, date, targets=sorted(specs) + [v["y"]], aggregate_by_p_id_specs=specs)
        except Exception as e:  # noqa: BLE001
            fails.append(core.Failure(f"by-p-id-variants-unavailable:{type(e).__name__}",
                                      f"{date}: person-pointer sums over the unit variants {sorted(v.values())} raise {type(e).__name__}: {e!s:.160}"))
            continue
        ptr = df["p_id_kindergeld_empf"].to_numpy()
        pos = {int(p): i for i, p in enumerate(df["p_id"].tolist())}
        src = r4[v["y"]].to_numpy().astype(float)
        exp = np.zeros(len(df))
        for i, t in enumerate(ptr.tolist()):
            if t >= 0:
                exp[pos[int(t)]] += src[i]
        for uu in "ymwd":
            got = r4[f"vfagg{uu}x"].to_numpy().astype(float) * PER_Y[uu]
            ok = close(got, exp, 1e-9)
            if not ok.all():
                i = int(np.flatnonzero(~ok)[0])
                fails.append(core.Failure(f"by-p-id-factor:{v[uu]}", f"{date}: the sum of {v[uu]} by p_id_kindergeld_empf times {PER_Y[uu]} is {got[i]}, "
                                          f"the sum of {v['y']} is {exp[i]} (p_id={int(df['p_id'].iloc[i])})"))
        if stats is not None and np.any(exp != 0):
            stats.append(f"B4|{n}")
    # B3: inputs supplied in another unit
    for c, u2 in swap:
        v, u = variants(c)
        if u2 == u or c not in df.columns:
            continue
        factor = PER_Y[u] / PER_Y[u2]  # x_u2 = x_u * PER_Y[u] / PER_Y[u2]
        x_other = df[c].to_numpy() * factor
        d1 = df.drop(columns=[c]).copy()
        d1[v[u2]] = x_other
        tg = [t for t in nodes if t not in (c, v[u2])]
        try:
            r1 = env.simulate(d1, date, targets=[*tg, c])
        except Exception as e:  # noqa: BLE001
            fails.append(core.Failure(f"input-unit-raises:{c}->{u2}", f"{date}: supplying {v[u2]} instead of {c} raises {type(e).__name__}: {e!s:.160}"))
            continue
        # the column the system derives from the supplied one must be the original amount
        # (up to floating-point rounding) ...
        derived = r1[c].to_numpy().astype(float)
        ok = close(derived, df[c].to_numpy(), 1e-14)
        if not ok.all():
            i = int(np.flatnonzero(~ok)[0])
            fails.append(core.Failure(f"input-unit-factor:{c}->{u2}", f"{date}: {c} derived from {v[u2]} is {derived[i]!r}, expected {df[c].to_numpy()[i]!r}"))
            continue
        # ... and, fed back bit for bit as the original input, must give the same results, so that
        # no threshold can amplify the 1-ulp conversion error into a spurious difference
        d2 = df.copy()
        d2[c] = derived
        r2 = env.simulate(d2, date, targets=tg)
        key = np.arange(len(df))
        diffs = compare.compare_frames(r2, r1, key_base=key, key_other=key, columns=tg, check_dtype=False)
        if diffs:
            d = diffs[0]
            fails.append(core.Failure(f"input-unit:{c}->{u2}", f"{date}: supplying {v[u2]} instead of {c} changes {d['column']} ({d}); {len(diffs)} node(s)"))
        if stats is not None and np.any(df[c].to_numpy() != 0):
            stats.append(f"B3|{c}->{u2}")
    return fails


def oracle(case, date, sh, ctx):
    pop, chosen, sums, swap = case
    stats = []
    fails = check(pop.df, date, chosen, sums, swap, stats)
    for s in stats:
        sh.nontrivial.add(f"{ctx['iso']}|{s}")
    sh.classes["B1-names"] += len(chosen)
    sh.classes["B2-sums"] += len(sums)
    sh.classes["B3-swaps"] += len(swap)
    sh.sample({"date": str(date), "variants_of": chosen[:6], "group_sums": [list(x) for x in sums], "input_unit_swaps": [list(x) for x in swap],
               "population": popgen.brief(pop.df, max_rows=4)}, limit=2)
    for f in fails:
        if f.key not in ctx["known"]:
            f.case = popcheck.payload(pop.df, date, chosen=chosen, sums=[list(x) for x in sums], swap=[list(x) for x in swap])
    return fails


# ---- A: unit level ----------------------------------------------------------------------


def unit_shard(desc):
    sh = core.Shard()
    known = core.load_known(PROP)
    conv = {f"{a}_to_{b}": getattr(tc, f"{a}_to_{b}") for a in "ymwd" for b in "ymwd" if a != b and hasattr(tc, f"{a}_to_{b}")}
    floats = st.one_of(st.floats(allow_nan=False, allow_infinity=False, width=64),
                       st.floats(-1e7, 1e7), st.sampled_from([0.0, -0.0, 1.0, 450.0, 5e-324, 1e308, -1e308, 12.0, 365.25]))

    def oracle(x):
        out = []
        for name, f in conv.items():
            a, b = name.split("_to_")
            exp = x * PER_Y[a] / PER_Y[b]  # x_y = 12 x_m = (365.25/7) x_w = 365.25 x_d
            got = f(x)
            if math.isinf(exp) or math.isinf(got):
                continue
            if not (got == exp or abs(got - exp) <= 4 * math.ulp(exp)):
                out.append(core.Failure(f"converter:{name}", f"{name}({x!r}) = {got!r}, expected {exp!r}", {"kind": "unit", "x": x}))
            back = conv[f"{b}_to_{a}"](got)
            if (abs(x) < 1e-290 and x != 0) or abs(x) > 1e300:
                continue  # overflow / subnormal intermediates lose relative precision by design of IEEE 754
            if not (back == x or abs(back - x) <= 4 * math.ulp(x)):
                out.append(core.Failure(f"roundtrip:{name}", f"{b}_to_{a}({name}({x!r})) = {back!r}", {"kind": "unit", "x": x}))
        if x != 0:
            sh.nontrivial.add(f"A|{x!r}")
        sh.sample({"converter_input": x}, limit=1)
        return out

    core.explore(floats, oracle, n=desc["n"], seed=dates.sub_seed(desc["seed"], PROP, "unit"), shard=sh, known=known, shrink=True)
    sh.classes["unit-level-floats"] += sh.evaluations
    return sh


def run(tier, seed, t0):
    n = 3000 if tier == "quick" else 100000
    extra = [("vf.checks.c13", "unit_shard", [{"n": n, "seed": seed}])]
    return popcheck.run(__name__, tier, seed, t0, extra_descs=extra)


def replay(case):
    if case.get("kind") == "unit":
        x = case["x"]
        out = []
        for name in [f"{a}_to_{b}" for a in "ymwd" for b in "ymwd" if a != b and hasattr(tc, f"{a}_to_{b}")]:
            a, b = name.split("_to_")
            exp = x * PER_Y[a] / PER_Y[b]  # x_y = 12 x_m = (365.25/7) x_w = 365.25 x_d
            got = getattr(tc, name)(x)
            if not (got == exp or abs(got - exp) <= 4 * math.ulp(exp)):
                out.append(core.Failure(f"converter:{name}", f"{name}({x!r}) = {got!r}, expected {exp!r}"))
        return out
    df, date = popcheck.unpack(case)
    return check(df, date, case["chosen"], [tuple(x) for x in case["sums"]], [tuple(x) for x in case["swap"]])
