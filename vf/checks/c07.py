"""C07 -- the policy environment for a date is exactly the law in force that day.

Oracle 1: independent YAML resolver (vf.refmodel.yaml_env) vs set_up_policy_environment(d),
          leaf by leaf (floats 1e-12 relative), all 19 groups incl. rounding specs,
          piecewise schedules, prior-date look-ups and date-derived parameters.
Oracle 2: from the decorators: for every column name exactly the implementation whose
          [start_date, end_date] contains d is in the functions dict.
Oracle 3: within a stratum (between two consecutive change dates) the environment is
          constant except `datum`.
"""
from __future__ import annotations

import datetime
import math
from fractions import Fraction

import numpy as np

from _gettsim.config import INTERNAL_PARAMS_GROUPS

from .. import core, dates
from ..refmodel import yaml_env as Y

PROP = "C07"
LEVEL = "exploration"
RULE = (
    "cases = calendar days: every change date d in [1980-01-01, last YAML key + 1y] with d-1 and d+1, "
    "every 29 February, the last and an interior day of strata, plus seed-dependent random days.  For each "
    "day the whole environment (all groups, parameters, rounding specs, schedules) and the rule "
    "dictionary are compared with the reference.  A distinct non-trivial item is a "
    "(group.parameter, day) or (column name, day) pair on a day where the reference value / active "
    "implementation differs from the day before (i.e. the comparison happens on a real change), or a leap day."
)
ASSUMPTIONS = [
    "the reference resolver is a second reading of GEP 3/5 and of the property statement over yaml.safe_load of the raw files",
    "YAML float literals are read as decimals (Fraction) for schedules; comparison tolerance 1e-12 relative",
]
LO = datetime.date(1980, 1, 1)


# ------------------------------------------------------------------ flattening / comparing


def flat_ref(v, path, out):
    if isinstance(v, Y.Schedule):
        for i, t in enumerate(v.thresholds):
            out[(*path, "thresholds", i)] = t
        for p, r in enumerate(v.rates):
            for i, x in enumerate(r):
                out[(*path, "rates", p, i)] = x
        for i, x in enumerate(v.intercepts):
            out[(*path, "intercepts_at_lower_thresholds", i)] = x
    elif isinstance(v, dict):
        if not v and len(path) > 1:
            out[(*path, "<empty-dict>")] = True
        for k, x in v.items():
            flat_ref(x, (*path, k), out)
    elif isinstance(v, (list, tuple)):
        for i, x in enumerate(v):
            flat_ref(x, (*path, i), out)
    else:
        out[path] = v


def flat_code(v, path, out):
    if isinstance(v, dict):
        if not v and len(path) > 1:
            out[(*path, "<empty-dict>")] = True
        for k, x in v.items():
            flat_code(x, (*path, k), out)
    elif isinstance(v, np.ndarray):
        if v.ndim == 0:
            out[path] = v.item()
        else:
            for idx in np.ndindex(v.shape):
                out[(*path, *idx)] = v[idx].item() if hasattr(v[idx], "item") else v[idx]
    elif isinstance(v, (list, tuple)):
        for i, x in enumerate(v):
            flat_code(x, (*path, i), out)
    else:
        out[path] = v.item() if isinstance(v, np.generic) and not isinstance(v, np.datetime64) else v


def leaf_equal(r, c):
    if isinstance(r, Fraction):
        r = float(r)
    if isinstance(r, bool) or isinstance(c, bool):
        return r == c or (isinstance(r, (int, float)) and isinstance(c, (int, float)) and float(r) == float(c))
    if isinstance(r, (int, float)) and isinstance(c, (int, float)):
        rf, cf = float(r), float(c)
        if math.isnan(rf) and math.isnan(cf):
            return True
        if math.isinf(rf) or math.isinf(cf):
            return rf == cf
        return abs(rf - cf) <= 1e-12 * max(1.0, abs(rf), abs(cf))
    return r == c


def ref_flat(d):
    env = Y.full_env(d, INTERNAL_PARAMS_GROUPS)
    out = {}
    for g, params in env.items():
        flat_ref(params, (g,), out)
        out[(g, "datum")] = np.datetime64(d)
        rs = Y.rounding_specs(g, d)
        if rs is not Y.ABSENT:
            if not rs:
                out[(g, "rounding", "<empty-dict>")] = True
            flat_ref(rs, (g, "rounding"), out)
    return out


def code_flat(params):
    out = {}
    flat_code(params, (), out)
    return out


def compare_env(d, params):
    ref = ref_flat(d)
    code = code_flat(params)
    fails = []
    for path in sorted(set(ref) | set(code), key=str):
        if path not in code:
            fails.append(("missing-in-env", path, ref[path], None))
        elif path not in ref:
            fails.append(("not-in-law", path, None, code[path]))
        elif not leaf_equal(ref[path], code[path]):
            fails.append(("value", path, ref[path], code[path]))
    return fails, ref


def param_key(path):
    """Root-cause key: group.param (+ first sub-key for rounding)."""
    if len(path) >= 3 and path[1] == "rounding":
        last = path[-1] if isinstance(path[-1], str) else ""
        return f"{path[0]}.rounding.{path[2]}.{last}"
    return ".".join(str(p) for p in path[:2])


# ------------------------------------------------------------------------------- rules


def expected_rules(d):
    import _gettsim.functions  # noqa: F401
    from _gettsim.functions_loader import load_internal_functions

    exp = {}
    clashes = []
    for f in load_internal_functions().values():
        info = getattr(f, "__info__", None)
        if info and "name_in_dag" in info:
            if info["start_date"] <= d <= info["end_date"]:
                if info["name_in_dag"] in exp:
                    clashes.append(info["name_in_dag"])
                exp[info["name_in_dag"]] = f
        else:
            exp[f.__name__] = f
    return exp, clashes


def compare_rules(d, functions):
    exp, clashes = expected_rules(d)
    fails = []
    for n in clashes:
        fails.append((f"rule-ambiguous:{n}", f"{d}: two implementations of {n} are valid"))
    for n in sorted(set(exp) | set(functions)):
        if n not in functions:
            fails.append((f"rule-missing:{n}", f"{d}: {n} has an implementation valid on this day ({exp[n].__name__}) but is not in the environment"))
        elif n not in exp:
            fails.append((f"rule-extra:{n}", f"{d}: {n} is in the environment ({functions[n].__name__}) but no implementation's validity interval contains the day"))
        elif functions[n] is not exp[n] and functions[n].__name__ != exp[n].__name__:
            fails.append((f"rule-wrong:{n}", f"{d}: {n} -> {functions[n].__name__}, expected {exp[n].__name__}"))
    return fails, exp


# ------------------------------------------------------------------------------ shards


def _envs_equal_except_datum(p1, p2):
    a, b = code_flat(p1), code_flat(p2)
    bad = []
    for path in set(a) | set(b):
        if path[-1] == "datum":
            continue
        if path not in a or path not in b or not leaf_equal(a[path], b[path]):
            bad.append(path)
    return bad


def shard(desc):
    from _gettsim.policy_environment import set_up_policy_environment

    sh = core.Shard()
    known = core.load_known(PROP)
    seen = set()

    def report(key, what, case):
        if key in known:
            sh.known_seen[key] += 1
        elif key not in seen:
            seen.add(key)
            sh.failures.append(core.Failure(key, what, case))

    import signal

    class _Slow(Exception):
        pass

    def _alarm(signum, frame):
        raise _Slow()

    signal.signal(signal.SIGALRM, _alarm)
    scribbled = 0
    for item in desc["items"]:
        d = datetime.date.fromisoformat(item["date"])
        note = " (earlier returned environments of this process were edited in place before)" if scribbled else ""
        try:
            signal.alarm(90)  # a set-up normally takes 1-3 s; a budget hit is "inconclusive", not a verdict
            try:
                params, functions = set_up_policy_environment(d)
            finally:
                signal.alarm(0)
        except _Slow:
            sh.classes["setup-exceeded-90s(inconclusive)"] += 1
            sh.notes.append(f"{d}: set_up_policy_environment did not finish within 90 s (inconclusive)")
            continue
        except Exception as e:  # noqa: BLE001
            report(f"setup-raises:{type(e).__name__}", f"{d}: set_up_policy_environment raises {type(e).__name__}: {e!s:.150}",
                   {"date": str(d), "kind": "env"})
            continue
        sh.evaluations += 1
        fails, ref = compare_env(d, params)
        for kind, path, r, c in fails:
            report(f"{kind}:{param_key(path)}", f"{d}: {'.'.join(map(str, path))}: law says {r!r}, environment has {c!r}{note}",
                   {"date": str(d), "kind": "env", "after_scribble": bool(scribbled)})
        rfails, exp = compare_rules(d, functions)
        for key, what in rfails:
            report(key, what, {"date": str(d), "kind": "rules"})
        # non-triviality: what changed relative to the day before (by the reference)
        if item.get("is_change") or item.get("leap"):
            prev = ref_flat(d - datetime.timedelta(days=1))
            changed = {param_key(p) for p in set(ref) | set(prev)
                       if p[-1] != "datum" and (p not in ref or p not in prev or not leaf_equal(ref[p], prev[p]))}
            for k in changed:
                sh.nontrivial.add(f"{d}|{k}")
            pexp, _ = expected_rules(d - datetime.timedelta(days=1))
            for n in set(exp) | set(pexp):
                if (n in exp) != (n in pexp) or (n in exp and exp[n] is not pexp[n]):
                    sh.nontrivial.add(f"{d}|rule:{n}")
            if item.get("leap"):
                sh.nontrivial.add(f"{d}|leap-day")
            sh.classes["change-or-leap-day"] += 1
        else:
            sh.classes["other-day"] += 1
        # oracle 3: constancy within the stratum
        if item.get("same_stratum_as"):
            d0 = datetime.date.fromisoformat(item["same_stratum_as"])
            p0, f0 = set_up_policy_environment(d0)
            bad = _envs_equal_except_datum(p0, params)
            for path in bad[:5]:
                report(f"not-constant:{param_key(path)}", f"{d0} and {d} lie between the same change dates but {'.'.join(map(str, path))} differs",
                       {"date": str(d), "kind": "const", "other": str(d0)})
            if set(f0) != set(functions) or any(f0[n] is not functions[n] for n in f0 if n in functions):
                report("not-constant:rules", f"{d0} and {d} lie between the same change dates but the rule sets differ",
                       {"date": str(d), "kind": "const", "other": str(d0)})
            sh.classes["stratum-constancy-pairs"] += 1
        sh.sample({"date": str(d), "leaves_compared": len(ref), "rules_compared": len(exp),
                   "is_change_date": bool(item.get("is_change"))}, limit=2)
        sh.extra["leaves_compared_max"] = max(sh.extra.get("leaves_compared_max", 0), len(ref))
        # history: the environment is a function of the date alone.  Everything mutable in the objects just
        # returned is now overwritten in place; the environments set up afterwards in this process are
        # compared with the reference like any other, so state shared between calls shows as a wrong value.
        scribbled += scribble(params)
        functions.clear()
        sh.classes["set-up-after-scribbled-environment"] += bool(note)
    sh.extra["leaves_scribbled"] = scribbled
    return sh


def scribble(obj):
    """Overwrite every mutable numeric leaf of a params object in place; returns the number of writes."""
    n = 0
    if isinstance(obj, dict):
        for k in list(obj):
            v = obj[k]
            if isinstance(v, (dict, list, np.ndarray)):
                n += scribble(v)
            elif isinstance(v, bool):
                obj[k] = not v
                n += 1
            elif isinstance(v, (int, float, np.integer, np.floating)):
                obj[k] = -7.25 - 3 * float(v)
                n += 1
            elif isinstance(v, str):
                obj[k] = v + "~"
                n += 1
        obj["vf_scribble"] = 1
    elif isinstance(obj, list):
        for i, v in enumerate(obj):
            if isinstance(v, (dict, list, np.ndarray)):
                n += scribble(v)
            elif isinstance(v, (int, float)) and not isinstance(v, bool):
                obj[i] = -7.25 - 3 * float(v)
                n += 1
        obj.append(-1)
    elif isinstance(obj, np.ndarray) and obj.dtype.kind in "fiu" and obj.flags.writeable:
        obj[...] = -7 - 3 * obj
        n += int(obj.size)
    return n


def plan(tier, seed):
    hi = dates.change_dates()[-1]
    cds = [d for d in dates.change_dates() if LO <= d <= hi]
    one = datetime.timedelta(days=1)
    items = {}

    def add(d, **kw):
        if LO <= d <= hi:
            items.setdefault(d, {"date": d.isoformat()}).update(kw)

    chosen = cds if tier == "thorough" else dates.pick(cds, 60, seed, PROP, "cd")
    for d in chosen:
        add(d, is_change=True)
        add(d - one)
        if tier == "thorough":
            add(d + one)
    for d in dates.leap_days():
        add(d, leap=True)
    # stratum constancy: last (and interior) day against the first day
    strata = dates.strata(LO, hi)
    for s in (strata if tier == "thorough" else dates.pick(strata, 20, seed, PROP, "const")):
        days = dates.stratum_days(s)
        for other in days[1:]:
            add(other, same_stratum_as=s[0].isoformat())
    # seed-dependent random days
    span = (hi - LO).days
    for i in range(200 if tier == "thorough" else 16):
        add(LO + datetime.timedelta(days=dates.sub_seed(seed, PROP, "rnd", i) % span))
    lst = [items[k] for k in sorted(items)]
    n = core.NPROC * (3 if tier == "thorough" else 1)
    return [{"items": lst[i::n]} for i in range(n) if lst[i::n]]


def run(tier, seed, t0):
    results = core.run_shards("vf.checks.c07", "shard", plan(tier, seed))
    total, errors = core.merge(results)
    return core.finish(PROP, tier=tier, seed=seed, level=LEVEL, rule=RULE, assumptions=ASSUMPTIONS,
                       total=total, errors=errors, t0=t0, min_evaluations=30, min_nontrivial=20)


def replay(case):
    from _gettsim.policy_environment import set_up_policy_environment

    d = datetime.date.fromisoformat(case["date"])
    params, functions = set_up_policy_environment(d)
    out = []
    if case["kind"] == "env":
        fails, _ = compare_env(d, params)
        out = [core.Failure(f"{k}:{param_key(p)}", f"{d}: {'.'.join(map(str, p))}: law {r!r} vs env {c!r}") for k, p, r, c in fails]
    elif case["kind"] == "rules":
        out = [core.Failure(k, w) for k, w in compare_rules(d, functions)[0]]
    else:
        d0 = datetime.date.fromisoformat(case["other"])
        p0, _ = set_up_policy_environment(d0)
        out = [core.Failure(f"not-constant:{param_key(p)}", f"{d0} vs {d}: {p}") for p in _envs_equal_except_datum(p0, params)]
    seen, uniq = set(), []
    for f in out:
        if f.key not in seen:
            seen.add(f.key)
            uniq.append(f)
    return uniq
