"""C17 -- means-tested benefits are mutually exclusive as the priority rules say.

Oracle (invariant per person, on the nodes of one run): not (ALG II > 0 and Wohngeld > 0); not
(ALG II > 0 and Kinderzuschlag > 0); Grundsicherung im Alter > 0 implies the other three are 0;
wthh_id is constant within each bg_id; Kinderzuschlag > 0 only where income + Kinderzuschlag
(alone or with the Wohngeld entitlement) covers the assessed need of the Bedarfsgemeinschaft.
Incomes are swept across the break-even points: one drawn household is copied along a wage grid
(fresh ids per copy) so that one simulation evaluates the whole sweep.
"""
from __future__ import annotations

import numpy as np
import pandas as pd
from hypothesis import strategies as st

from .. import core, env, popcheck, popgen
from .c01 import _Case

PROP = "C17"
LEVEL = "exploration"
RULE = (
    "case = (change-date stratum >= 2015, one generated household (incl. multi-generation and "
    "several-needs-unit households), the adult whose wage is swept, a wage grid from 0 to 2000-7000 "
    "EUR, wealth level).  Non-trivial = the sweep passes through at least two different benefit "
    "regimes (which of ALG II / Kinderzuschlag / Wohngeld / Grundsicherung is paid); distinct = the "
    "(stratum, compressed regime sequence, archetype) triple."
)
ASSUMPTIONS = [
    "the invariants are evaluated on the nodes of the same run (arbeitsl_geld_2_m_bg, kinderzuschl_m_bg, wohngeld_m_wthh, grunds_im_alter_m_eg, bg_id, wthh_id, arbeitsl_geld_2_eink_m_bg, arbeitsl_geld_2_regelbedarf_m_bg, _kinderzuschl_nach_vermög_check_m_bg, wohngeld_anspruchshöhe_m_bg)",
    "tolerance 1e-6 EUR on the coverage inequality",
]
BUDGET = {"quick": (32, 24), "thorough": (None, 60)}
ARCHS = ["single", "couple", "single_parent", "couple_kids", "patchwork", "adult_child",
         "three_gen", "pensioners", "teen_parent", "child_with_partner", "pensioner_parent",
         # households with several needs units, one of them with children, once more: the regimes of two
         # units of one household meet there (ALG II for one, Wohngeld + Kinderzuschlag for the other)
         "three_gen", "teen_parent", "adult_child", "pensioner_parent", "pensioners"]
MULTI_UNIT = {"three_gen", "teen_parent", "adult_child", "child_with_partner", "pensioner_parent"}
NODES = ["arbeitsl_geld_2_m_bg", "kinderzuschl_m_bg", "wohngeld_m_wthh", "grunds_im_alter_m_eg",
         "bg_id", "wthh_id", "arbeitsl_geld_2_eink_m_bg", "arbeitsl_geld_2_regelbedarf_m_bg",
         "_kinderzuschl_nach_vermög_check_m_bg", "wohngeld_anspruchshöhe_m_bg",
         "wohngeld_vorrang_bg", "kinderzuschl_vorrang_bg", "wohngeld_kinderzuschl_vorrang_bg"]


def strategy(date, ctx):
    npts = 40 if ctx["tier"] == "quick" else 160

    @st.composite
    def s(draw):
        arch = draw(st.sampled_from(ARCHS))
        pop = draw(popgen.populations(date, mode="mid", max_households=1, max_children=4,
                                      archetypes=[arch], shuffle=False))
        df = pop.df
        adults = np.flatnonzero((df["alter"] >= 18).to_numpy())
        who = int(draw(st.sampled_from(list(adults)))) if len(adults) else 0
        if arch in MULTI_UNIT and (df["alter"] < 18).any() and draw(st.integers(0, 2)) > 0:
            # sweep the wage of a parent of the youngest child: the unit with children then walks through
            # the Kinderzuschlag / Wohngeld regimes while the other unit of the household stays where it is
            kid = int(np.argmin(df["alter"].to_numpy()))
            pos = {int(p): i for i, p in enumerate(df["p_id"].tolist())}
            parents = [pos[int(v)] for v in (df["p_id_elternteil_1"].iloc[kid], df["p_id_elternteil_2"].iloc[kid]) if int(v) in pos]
            parents = [i for i in parents if df["alter"].iloc[i] >= 18]
            if parents:
                who = int(draw(st.sampled_from(parents)))
        top = draw(st.sampled_from([2000.0, 3500.0, 5000.0, 7000.0]))
        zero_other = draw(st.sampled_from([True, True, True, False]))
        wealth = draw(st.one_of(st.sampled_from([0.0, 0.0, 2000.0, 20000.0, 200000.0]), st.floats(0.0, 300000.0).map(lambda v: round(v, 2))))
        rent = draw(st.one_of(st.sampled_from([0.0, 350.0, 600.0, 950.0]), st.floats(0.0, 2500.0).map(lambda v: round(v, 2))))
        others = [int(i) for i in adults if int(i) != who]
        if others and draw(st.booleans()):
            # a second earner with a fixed wage (e.g. the other needs unit of the household)
            rent = (rent, int(draw(st.sampled_from(others))), draw(st.sampled_from([450.0, 800.0, 1000.0, 1200.0, 1600.0, 2400.0])))
        # one sweep in three runs over the *wealth* of the household (fixed wage): the wealth checks
        # of ALG II / Kinderzuschlag / Wohngeld have their own break-even points
        if draw(st.integers(0, 2)) == 0:
            wage = draw(st.sampled_from([0.0, 900.0, 1250.0, 1600.0, 2200.0, 3000.0]))
            return _Case((pop, who, draw(st.sampled_from([20000.0, 45000.0, 90000.0])), npts, zero_other, ("sweep", wage), rent))
        return _Case((pop, who, top, npts, zero_other, wealth, rent))

    return s()


def build_sweep(df, who, top, npts, zero_other, wealth, rent, guide=None, wage_band=None):
    base = df.copy()
    if zero_other:
        for c in ["eink_selbst_m", "kapitaleink_brutto_m", "eink_vermietung_m", "sonstig_eink_m", "priv_rente_m"]:
            base[c] = 0.0
        base["bruttolohn_m"] = 0.0
    wealth_sweep = isinstance(wealth, (tuple, list))
    base["vermögen_bedürft"] = 0.0 if wealth_sweep else wealth
    second = None
    if isinstance(rent, (tuple, list)):
        rent, second_row, second_wage = rent
        second = (int(second_row), float(second_wage))
    base["bruttokaltmiete_m_hh"] = rent
    if second is not None:
        base.loc[base.index[second[0]], "bruttolohn_m"] = second[1]
        base.loc[base.index[second[0]], "bruttolohn_vorj_m"] = second[1]
        base.loc[base.index[second[0]], "arbeitsstunden_w"] = 30.0
    n = len(base)
    pid = {int(p): i for i, p in enumerate(base["p_id"].tolist())}
    hhs = {int(h): i for i, h in enumerate(sorted(set(base["hh_id"].tolist())))}
    grid = np.round(np.linspace(0.0, top, npts), 2)
    if wage_band is not None and not wealth_sweep:
        grid = np.round(np.linspace(max(wage_band[0], 0.0), wage_band[1], npts), 2)
    if wealth_sweep and guide is not None:
        guides = list(guide) if isinstance(guide, (list, tuple)) else [guide]
        per = max(2, npts // len(guides))
        grid = np.round(np.concatenate([np.linspace(max(g - 600.0, 0.0), g + 1400.0, per) for g in guides])[:npts], 2)
        if len(grid) < npts:
            grid = np.concatenate([grid, np.round(np.linspace(0.0, top, npts - len(grid)), 2)])
    parts = []
    for k, w in enumerate(grid):
        d = base.copy()
        d["p_id"] = [k * 100 + pid[int(p)] for p in base["p_id"]]
        d["hh_id"] = [k * 10 + hhs[int(h)] for h in base["hh_id"]]
        for c in popgen.POINTER_COLS:
            d[c] = [k * 100 + pid[int(v)] if v >= 0 else int(v) for v in base[c]]
        wage = float(wealth[1]) if wealth_sweep else float(w)
        d.loc[d.index[who], "bruttolohn_m"] = wage
        d.loc[d.index[who], "bruttolohn_vorj_m"] = wage
        d.loc[d.index[who], "arbeitsstunden_w"] = 38.0 if wage > 0 else 0.0
        if wealth_sweep:
            d.loc[d.index[who], "vermögen_bedürft"] = float(w)
        parts.append(d)
    out = pd.concat(parts, ignore_index=True)
    for c in ["p_id", "hh_id", *popgen.POINTER_COLS]:
        out[c] = out[c].astype("int64")
    return out, grid, n


def invariants(res, df, date):
    alg2 = res["arbeitsl_geld_2_m_bg"].to_numpy()
    kiz = res["kinderzuschl_m_bg"].to_numpy()
    wg = res["wohngeld_m_wthh"].to_numpy()
    gsa = res["grunds_im_alter_m_eg"].to_numpy()
    fails = []

    def first(mask):
        i = int(np.flatnonzero(mask)[0])
        return i, int(df["p_id"].iloc[i])

    m = (alg2 > 0) & (wg > 0)
    if m.any():
        i, p = first(m)
        fails.append(core.Failure("alg2+wohngeld", f"{date}: p_id={p} receives ALG II {alg2[i]} and Wohngeld {wg[i]}"))
    m = (alg2 > 0) & (kiz > 0)
    if m.any():
        i, p = first(m)
        fails.append(core.Failure("alg2+kinderzuschlag", f"{date}: p_id={p} receives ALG II {alg2[i]} and Kinderzuschlag {kiz[i]}"))
    m = (gsa > 0) & ((alg2 > 0) | (kiz > 0) | (wg > 0))
    if m.any():
        i, p = first(m)
        fails.append(core.Failure("grundsicherung+other", f"{date}: p_id={p} receives Grundsicherung im Alter {gsa[i]} together with ALG II {alg2[i]} / KiZ {kiz[i]} / Wohngeld {wg[i]}"))
    nun = pd.Series(res["wthh_id"].to_numpy()).groupby(res["bg_id"].to_numpy()).nunique()
    # bg_id is unique per household already (fg ids are global), so a plain groupby suffices
    if (nun > 1).any():
        fails.append(core.Failure("bg-split-over-wthh", f"{date}: bg_id={nun[nun > 1].index[0]} is spread over several wthh_id"))
    eink = res["arbeitsl_geld_2_eink_m_bg"].to_numpy()
    need = res["arbeitsl_geld_2_regelbedarf_m_bg"].to_numpy()
    kizn = res["_kinderzuschl_nach_vermög_check_m_bg"].to_numpy()
    wga = res["wohngeld_anspruchshöhe_m_bg"].to_numpy()
    covered = (eink + kizn >= need - 1e-6) | (eink + kizn + wga >= need - 1e-6)
    m = (kiz > 0) & ~covered
    if m.any():
        i, p = first(m)
        fails.append(core.Failure("kinderzuschlag-without-cover", f"{date}: p_id={p} receives Kinderzuschlag {kiz[i]} although income {eink[i]} + KiZ {kizn[i]} (+ Wohngeld {wga[i]}) < need {need[i]}"))
    return fails


def regimes(res, n, npts):
    alg2 = res["arbeitsl_geld_2_m_bg"].to_numpy().reshape(npts, n)
    kiz = res["kinderzuschl_m_bg"].to_numpy().reshape(npts, n)
    wg = res["wohngeld_m_wthh"].to_numpy().reshape(npts, n)
    gsa = res["grunds_im_alter_m_eg"].to_numpy().reshape(npts, n)
    seq = []
    for k in range(npts):
        r = "".join(ch for ch, a in zip("AKWG", (alg2[k], kiz[k], wg[k], gsa[k])) if (a > 0).any()) or "-"
        if not seq or seq[-1] != r:
            seq.append(r)
    return seq


def check(sweep_df, date):
    res = env.simulate(sweep_df, date, targets=NODES)
    return invariants(res, sweep_df, date), res


def oracle(case, date, sh, ctx):
    pop, who, top, npts, zero_other, wealth, rent = case
    guide = None
    if isinstance(wealth, (tuple, list)):
        # generator guidance only: the wealth checks matter where a benefit would be paid without wealth, so
        # the fixed wage of a wealth sweep is moved to a wage at which the system itself pays Kinderzuschlag
        # (else Wohngeld) to this household with zero wealth, if there is one
        try:
            wprobe, wgrid, wn = build_sweep(pop.df, who, 4800.0, 25, zero_other, 0.0, rent)
            wres = env.simulate(wprobe, date, targets=["kinderzuschl_m_bg", "wohngeld_m_wthh"])
            kz = wres["kinderzuschl_m_bg"].to_numpy().reshape(25, wn).max(axis=1)
            wo = wres["wohngeld_m_wthh"].to_numpy().reshape(25, wn).max(axis=1)
            cand = [float(w) for w, v in zip(wgrid, kz) if v > 0] or [float(w) for w, v in zip(wgrid, wo) if v > 0]
            if cand:
                wealth = ("sweep", cand[(len(pop.df) + int(top)) % len(cand)])
                sh.classes["wealth-sweep-at-wage-with-benefit"] += 1
        except Exception:  # noqa: BLE001
            pass
        # ... and put the wealth grid around the exemption the system itself
        # computes for this household (a narrow band above it decides the wealth checks)
        probe, _, _ = build_sweep(pop.df, who, 0.0, 1, zero_other, wealth, rent)
        try:
            pr = env.simulate(probe, date, targets=["kinderzuschl_vermög_freib_bg", "arbeitsl_geld_2_vermög_freib_bg"])
            cands = sorted(set(float(v) for v in pr.to_numpy().ravel() if np.isfinite(v) and v > 0))
            if cands:
                guide = cands[:4]  # the grid covers a band around each exemption
        except Exception:  # noqa: BLE001
            guide = None
    band = None
    if not isinstance(wealth, (tuple, list)) and (pop.df["alter"] < 18).any() and (
            (len(pop.df) + int(top)) % 2 == 0 or pop.archetypes[0] in MULTI_UNIT):
        # generator guidance only: half of the wage sweeps of families with children zoom into the band of
        # wages in which the system itself pays Kinderzuschlag (the joint Wohngeld + Kinderzuschlag regime is
        # a narrow band that a grid from 0 to 7000 crosses in one or two points)
        try:
            wprobe, wgrid, wn = build_sweep(pop.df, who, 5000.0, 26, zero_other, wealth, rent)
            kz = env.simulate(wprobe, date, targets=["kinderzuschl_m_bg"])["kinderzuschl_m_bg"].to_numpy().reshape(26, wn).max(axis=1)
            paid = [float(w) for w, v in zip(wgrid, kz) if v > 0]
            if paid:
                band = (min(paid) - 400.0, max(paid) + 400.0)
                sh.classes["wage-sweep-zoomed-into-kinderzuschlag-band"] += 1
        except Exception:  # noqa: BLE001
            band = None
    sweep, grid, n = build_sweep(pop.df, who, top, npts, zero_other, wealth, rent, guide, band)
    fails, res = check(sweep, date)
    seq = regimes(res, n, npts)
    sh.classes["regimes:" + ">".join(seq)] += 1
    sh.classes["sweep-over-wealth" if isinstance(wealth, (tuple, list)) else "sweep-over-wage"] += 1
    if len(seq) >= 2:
        sh.nontrivial.add(f"{ctx['iso']}|{'>'.join(seq)}|{pop.archetypes[0]}")
    nbg = int(pd.Series(res["bg_id"].to_numpy()[:n]).nunique())
    sh.classes[f"needs-units-in-household={min(nbg, 3)}"] += 1
    if isinstance(rent, (tuple, list)):
        sh.classes["second-earner"] += 1
    sh.sample({"date": str(date), "archetype": pop.archetypes[0], "swept_person_row": who, "wage_grid": [float(grid[0]), float(grid[1]), "...", float(grid[-1])],
               "wealth": wealth, "rent": rent, "regime_sequence": seq, "household": popgen.brief(pop.df, max_rows=6)}, limit=3)
    for f in fails:
        if f.key not in ctx["known"]:
            f.case = popcheck.payload(sweep, date)
    return fails


def run(tier, seed, t0):
    return popcheck.run(__name__, tier, seed, t0)


def replay(case):
    df, date = popcheck.unpack(case)
    return check(df, date)[0]
