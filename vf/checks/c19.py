"""C19 -- social-insurance contributions follow the statutory shape in the wage.

Oracle (invariants along a wage sweep evaluated in one table, one single-person household per wage
point): each of the four employee contributions is >= 0, non-decreasing in the wage, 0 wherever the
person is marginally employed, constant above its assessment ceiling; at the upper transition-zone
boundary the reduced contribution meets the regular one (no jump beyond 3 * rate * step); inside
the transition zone employee + employer share == total contribution (where the code base defines a
total).
"""
from __future__ import annotations

import datetime

import numpy as np
import pandas as pd
from hypothesis import strategies as st

from _gettsim.config import TYPES_INPUT_VARIABLES

from .. import core, env, popcheck, popgen
from .c01 import _Case

PROP = "C19"
LEVEL = "exploration"
RULE = (
    "case = (change-date stratum >= 2003-04-01 (introduction of the transition zone), east/west, has children, age, grid step) -> a sweep of gross "
    "wages from 0 to 1.2 x the highest assessment ceiling plus every statutory boundary (minijob limit, "
    "upper transition-zone bound, both ceilings) -0.01/0/+0.01.  Non-trivial = the sweep contains "
    "marginal, transition-zone and regular employment and both sides of both ceilings; distinct = "
    "(stratum, configuration)."
)
ASSUMPTIONS = [
    "boundaries are read from the same run (minijob_grenze, ceilings) and from params (upper transition-zone bound)",
    "employee: not self-employed, not retired, publicly insured; tolerance 1e-9 on monotonicity / equality",
]
BUDGET = {"quick": (96, 3), "thorough": (None, 24)}
# the transition zone ("Midijob") exists since 2003-04-01; the four contributions are computable from
# then on, so the shape conditions are explored from that date, not only from 2015
DATE_LO = datetime.date(2003, 4, 1)
CONTRIB = {
    "ges_rentenv": "ges_rentenv_beitr_arbeitnehmer_m",
    "ges_krankenv": "ges_krankenv_beitr_arbeitnehmer_m",
    "arbeitsl_v": "arbeitsl_v_beitr_arbeitnehmer_m",
    "ges_pflegev": "ges_pflegev_beitr_arbeitnehmer_m",
}
AUX = ["geringfügig_beschäftigt", "in_gleitzone", "minijob_grenze", "_ges_rentenv_beitr_bemess_grenze_m",
       "_ges_krankenv_beitr_bemess_grenze_m"]


def zone_nodes(date):
    _, functions = env.policy_env(date)
    out = {}
    for x in CONTRIB:
        names = (f"_{x}_beitr_midijob_sum_arbeitnehmer_arbeitgeber_m", f"_{x}_beitr_midijob_arbeitgeber_m",
                 f"_{x}_beitr_midijob_arbeitnehmer_m")
        if all(n in functions for n in names):
            out[x] = names
    return out


def strategy(date, ctx):
    @st.composite
    def s(draw):
        cfg = {
            "ost": draw(st.booleans()),
            "n_kids": draw(st.one_of(st.sampled_from([0, 0, 1, 2, 3, 5, 8, 10]), st.integers(0, 12))),
            "alter": draw(st.one_of(st.sampled_from([18, 22, 23, 30, 45, 60, 64]), st.integers(16, 66))),
            "step": draw(st.sampled_from([2.5, 5.0, 7.5] if ctx["tier"] == "quick" else [0.5, 1.0, 2.5])),
            "hours": draw(st.sampled_from([10.0, 20.0, 40.0])),
            # a private / occupational pension next to the wage (contributions on it do not depend on
            # the wage, so every shape condition in the wage is unaffected)
            "pension": draw(st.one_of(st.just(0.0), st.just(0.0), st.sampled_from([650.0, 3600.0, 9000.0]),
                                      st.floats(1.0, 12000.0).map(lambda v: round(v, 2)))),
        }
        return cfg

    return s()


def build(date, cfg):
    params, _ = env.policy_env(date)
    sv = params["sozialv_beitr"]
    region = "ost" if cfg["ost"] else "west"
    c_rv = float(sv["beitr_bemess_grenze_m"]["ges_rentenv"][region])
    c_kv = float(sv["beitr_bemess_grenze_m"]["ges_krankenv"][region])
    midi = float(sv["geringfügige_eink_grenzen_m"]["midijob"])
    mini = sv["geringfügige_eink_grenzen_m"].get("minijob")
    if mini is None:  # derived from the minimum wage since 2022-10-01
        mini = float(np.ceil(sv["mindestlohn"] * sv["geringf_eink_faktor"] / sv["geringf_eink_divisor"]))
    top = 1.2 * max(c_rv, c_kv)
    grid = set(np.round(np.arange(0.0, top, cfg["step"]), 2).tolist())
    for b in (float(mini), midi, c_rv, c_kv):
        for dlt in (-0.01, 0.0, 0.01):
            grid.add(round(b + dlt, 2))
    wages = np.array(sorted(w for w in grid if w >= 0))
    n = len(wages)
    cols = {}
    for c, t in TYPES_INPUT_VARIABLES.items():
        cols[c] = np.zeros(n, dtype="bool" if t is bool else "int64" if t is int else "float64")
    cols["p_id"] = np.arange(n)
    cols["hh_id"] = np.arange(n)
    for c in popgen.POINTER_COLS:
        cols[c] = np.full(n, -1)
    cols["alter"][:] = cfg["alter"]
    cols["geburtsjahr"][:] = date.year - cfg["alter"]
    cols["geburtsmonat"][:] = 1
    cols["geburtstag"][:] = 1
    cols["jahr_renteneintr"][:] = date.year - cfg["alter"] + 67
    cols["monat_renteneintr"][:] = 1
    cols["wohnort_ost"][:] = cfg["ost"]
    cols["ges_pflegev_hat_kinder"][:] = cfg["n_kids"] > 0
    cols["bruttolohn_m"] = wages
    cols["bruttolohn_vorj_m"] = wages.copy()
    cols["priv_rente_m"][:] = float(cfg.get("pension", 0.0))
    cols["arbeitsstunden_w"][:] = cfg["hours"]
    cols["mietstufe"][:] = 3
    cols["steuerklasse"][:] = 1
    cols["wohnfläche_hh"][:] = 50.0
    cols["bruttokaltmiete_m_hh"][:] = 400.0
    df = pd.DataFrame(cols)
    # number of children under 25 (relevant for long-term care from 2023-07-01): supplied as data in
    # place of its computation from the parent pointers, which the interface permits (C05)
    df["ges_pflegev_anz_kinder_bis_24"] = np.full(n, int(cfg["n_kids"]), dtype="int64")
    return df, {"mini": float(mini), "midi": midi, "c_rv": c_rv, "c_kv": c_kv}


def check(df, date, bounds=None, stats=None):
    zn = zone_nodes(date)
    targets = list(CONTRIB.values()) + AUX + [n for names in zn.values() for n in names]
    res = env.simulate(df, date, targets=targets)
    order = np.argsort(df["bruttolohn_m"].to_numpy(), kind="stable")
    w = df["bruttolohn_m"].to_numpy()[order]
    fails = []
    gb = res["geringfügig_beschäftigt"].to_numpy()[order]
    gz = res["in_gleitzone"].to_numpy()[order]
    params, _ = env.policy_env(date)
    midi = float(params["sozialv_beitr"]["geringfügige_eink_grenzen_m"]["midijob"])
    # statutory boundaries from the named parameters (not from the run's own nodes): the ceiling of
    # the person's region and the marginal-employment limit
    if bounds is None:
        region = "ost" if bool(df["wohnort_ost"].iloc[0]) else "west"
        sv = params["sozialv_beitr"]
        mini = sv["geringfügige_eink_grenzen_m"].get("minijob")
        if mini is None:
            mini = float(np.ceil(sv["mindestlohn"] * sv["geringf_eink_faktor"] / sv["geringf_eink_divisor"]))
        bounds = {"c_rv": float(sv["beitr_bemess_grenze_m"]["ges_rentenv"][region]),
                  "c_kv": float(sv["beitr_bemess_grenze_m"]["ges_krankenv"][region]), "mini": float(mini)}
    ones = np.ones(len(w))
    ceil = {"ges_rentenv": bounds["c_rv"] * ones, "arbeitsl_v": bounds["c_rv"] * ones,
            "ges_krankenv": bounds["c_kv"] * ones, "ges_pflegev": bounds["c_kv"] * ones}
    marginal = w <= bounds["mini"] + 1e-9
    for x, node in CONTRIB.items():
        c = res[node].to_numpy().astype(float)[order]
        if (c < -1e-9).any():
            i = int(np.argmin(c))
            fails.append(core.Failure(f"negative:{x}", f"{date}: {node} = {c[i]} at wage {w[i]}"))
        d = np.diff(c)
        if (d < -1e-9).any():
            i = int(np.argmin(d))
            fails.append(core.Failure(f"decreasing:{x}", f"{date}: {node} falls from {c[i]} at wage {w[i]} to {c[i+1]} at wage {w[i+1]}"))
        # with other contributory income (a pension) the contribution at wage 0 is what is due on that
        # income; "zero for marginal employment" then means: nothing is added to it
        c0 = float(c[0]) if (w[0] == 0 and float(df["priv_rente_m"].iloc[0]) > 0) else 0.0
        if (np.abs(c[gb | marginal] - c0) > 1e-9).any():
            i = int(np.flatnonzero((gb | marginal) & (np.abs(c - c0) > 1e-9))[0])
            fails.append(core.Failure(f"marginal-not-zero:{x}", f"{date}: {node} = {c[i]} at wage {w[i]} (at wage 0: {c0}) although the wage does not exceed the marginal-employment limit {bounds['mini']}"))
        above = w >= ceil[x] - 1e-9
        if above.sum() >= 2 and np.ptp(c[above]) > 1e-9:
            fails.append(core.Failure(f"not-constant-above-ceiling:{x}", f"{date}: {node} varies by {np.ptp(c[above])} above the ceiling {ceil[x][0]}"))
        # continuity at the upper transition-zone bound
        near = np.flatnonzero((w >= midi - 0.011) & (w <= midi + 0.011))
        if len(near) >= 2:
            rate = c[near[-1]] / max(w[near[-1]], 1.0)
            jump = np.abs(np.diff(c[near])).max()
            if jump > 3 * rate * 0.02 + 1e-6:
                fails.append(core.Failure(f"jump-at-zone-end:{x}", f"{date}: {node} jumps by {jump} around the upper transition-zone bound {midi} (values {c[near].tolist()})"))
        if x in zn:
            tot, ag, an = (res[n].to_numpy().astype(float)[order] for n in zn[x])
            bad = gz & (np.abs(an + ag - tot) > 1e-9 * np.maximum(1.0, np.abs(tot)))
            if bad.any():
                i = int(np.flatnonzero(bad)[0])
                fails.append(core.Failure(f"shares-dont-sum:{x}", f"{date}: in the transition zone at wage {w[i]}: employee {an[i]} + employer {ag[i]} != total {tot[i]}"))
            incons = gz & (np.abs(c - c0 - an) > 1e-9)
            if incons.any():
                i = int(np.flatnonzero(incons)[0])
                fails.append(core.Failure(f"zone-contribution-not-used:{x}", f"{date}: at wage {w[i]} (transition zone) {node} = {c[i]} (of which {c0} on other income) but the transition-zone employee share is {an[i]}"))
    if stats is not None:
        stats["regimes"] = (bool(gb.any()), bool(gz.any()), bool((~gb & ~gz).any()))
        stats["both_sides"] = all(((w < ceil[x]).any() and (w > ceil[x]).any()) for x in CONTRIB)
        stats["zone_totals"] = sorted(zn)
    return fails


def oracle(cfg, date, sh, ctx):
    df, bounds = build(date, cfg)
    stats = {}
    fails = check(df, date, bounds, stats)
    if all(stats["regimes"]) and stats["both_sides"]:
        sh.nontrivial.add(f"{ctx['iso']}|{sorted(cfg.items())}")
    sh.classes["zone-totals:" + ",".join(stats["zone_totals"])] += 1
    sh.sample({"date": str(date), "config": cfg, "n_wage_points": int(len(df)), "boundaries": bounds}, limit=3)
    for f in fails:
        if f.key not in ctx["known"]:
            f.case = {"date": str(date), "cfg": cfg}
    return fails


class _Cfg(dict):
    archetypes = ()

    def classes(self):
        return {f"ost={self['ost']}", f"n_kids={self['n_kids']}", f"alter={self['alter']}", f"pension={self.get('pension', 0.0)}"}


_s = strategy


def strategy(date, ctx):  # noqa: F811
    return _s(date, ctx).map(_Cfg)


def run(tier, seed, t0):
    return popcheck.run(__name__, tier, seed, t0)


def replay(case):
    import datetime

    date = datetime.date.fromisoformat(case["date"])
    df, bounds = build(date, case["cfg"])
    return check(df, date, bounds)
