"""C04 -- a column's value is independent of the requested target set, extra columns, debug.

Oracle (differential between two real executions): value(t | targets=S, options) ==
value(t | targets = all nodes + S); the result has one row per input row in input order and
exactly the requested columns (debug: plus the data columns).
"""
from __future__ import annotations

import re

import numpy as np
from hypothesis import strategies as st

from _gettsim.config import SUPPORTED_GROUPINGS, TYPES_INPUT_VARIABLES

from .. import compare, core, env, popcheck, popgen
from .c01 import _Case

PROP = "C04"
LEVEL = "exploration"
RULE = (
    "case = (date stratum >= 2015 or one of the sampled strata of 2005-2014 with the screened node universe, population, non-empty target subset S of computable names incl. "
    "time-unit variants and automatic group sums, extra inert columns, debug, "
    "check_minimal_specification, DataFrame/dict input).  Non-trivial = S contains a derived "
    "name (unit variant / automatic sum) or at least two targets; distinct = digest of (S, options, population)."
)
ASSUMPTIONS = [
    "baseline = the same population with all DAG nodes (+ S) requested",
    "float 1e-9 relative, ids as partitions, everything else exact incl. dtype kind",
]
BUDGET = {"quick": (32, 10), "thorough": (None, 60)}
EARLY = 6  # additional strata from 2005-2014 in the quick tier (all of them in the thorough tier)
GEN = dict(mode="branch", max_households=3)

_UNIT = re.compile(r"(?P<base>.*_)(?P<u>[ymwd])(?P<g>_(?:%s))?$" % "|".join(SUPPORTED_GROUPINGS))


def derived_names(date):
    """Names that are not rules at `date` but can be requested (unit variants, automatic sums)."""
    info = env.dag_info(date)
    _, functions = env.policy_env(date)
    existing = set(info["nodes"]) | set(functions) | set(TYPES_INPUT_VARIABLES)
    units, sums = [], []
    for n in info["computed"]:
        m = _UNIT.match(n)
        if m:
            for u in "ymwd":
                if u != m.group("u"):
                    cand = f"{m.group('base')}{u}{m.group('g') or ''}"
                    if cand not in existing:
                        units.append(cand)
        if env.group_of(n) is None and not n.endswith("_id") and not n.startswith("p_id"):
            f = functions.get(n)
            ann = getattr(f, "__annotations__", {}).get("return") if f else None
            if ann in (float, int, bool):
                for g in SUPPORTED_GROUPINGS:
                    cand = f"{n}_{g}"
                    if cand not in existing:
                        sums.append(cand)
    return sorted(set(units)), sorted(set(sums))


def rule_unit_variants(date):
    """Unit variants (not in the DAG) of *rules* of the functions dict.  GEP 4: "automatic conversion
    will only happen in case no column [column]_m is explicitly set" - an explicit rule is never
    replaced by a conversion of such a column, so for the rule and everything else the column is unused.
    (Variants of spec-defined person-pointer aggregates are excluded: there the code base lets a data
    column in another unit replace the aggregate, and the documentation is not explicit.)"""
    _, functions = env.policy_env(date)
    info = env.dag_info(date)
    existing = set(info["nodes"]) | set(functions) | set(TYPES_INPUT_VARIABLES)
    out = []
    per_base = {}
    for n in info["nodes"]:
        m = _UNIT.match(n)
        if m:
            per_base[m.group("base")] = per_base.get(m.group("base"), 0) + 1
    for n in info["computed"]:
        m = _UNIT.match(n)
        # only quantities of which the DAG contains nothing but the rule itself: as soon as a derived
        # sibling (another unit / an aggregate) is consumed somewhere, that sibling may legitimately be
        # converted from the supplied column rather than from the rule (GEP 4 leaves this open)
        if m and n in functions and per_base.get(m.group("base")) == 1:
            for u in "ymwd":
                cand = f"{m.group('base')}{u}{m.group('g') or ''}"
                if u != m.group("u") and cand not in existing:
                    out.append(cand)
    return sorted(set(out))


def strategy(date, ctx):
    nodes = env.all_nodes(date)
    units, sums = derived_names(date)
    rule_units = rule_unit_variants(date)

    import inspect as _inspect

    # nodes that depend on parameters only (scalars, broadcast to a column): a class of their own
    _, functions_ = env.policy_env(date)
    scalar_nodes = [n for n in nodes if n in functions_ and all(a.endswith("_params") for a in _inspect.signature(functions_[n]).parameters)]

    @st.composite
    def s(draw):
        pop = draw(popgen.populations(date, **GEN))
        k = draw(st.sampled_from([1, 1, 2, 3, 6]))
        pool = st.one_of(st.sampled_from(nodes), st.sampled_from(nodes), st.sampled_from(scalar_nodes or nodes),
                         st.sampled_from(units) if units else st.sampled_from(nodes),
                         st.sampled_from(sums) if sums else st.sampled_from(nodes))
        S = sorted(set(draw(st.lists(pool, min_size=k, max_size=k))))
        opts = {
            "debug": draw(st.booleans()),
            "cms": draw(st.sampled_from(["ignore", "warn"])),
            "as_dict": draw(st.booleans()),
            "extra": draw(st.sets(st.sampled_from(["zz_a", "zz_b_m", "zz_c_hh", "zz_d_y_hh", "zz_e_m_hh", "zz_f_bg"]), max_size=3)),
            "rounding": draw(st.sampled_from([True, True, False])),
            "index": draw(st.sampled_from(["range", "range", "shuffled", "strings", "offset"])),
            "extra_derived": sorted(draw(st.sets(st.sampled_from(rule_units), max_size=2))) if rule_units else [],
        }
        opts["extra"] = sorted(opts["extra"])
        return _Case((pop, S, opts))

    return s()


def with_extra(df, extra, derived=(), index="range"):
    out = df.copy()
    n = len(out)
    # columns named like a derived time-unit variant of a rule, with arbitrary values: no target of
    # the DAG consumes them, so they are "additional unused columns"
    for i, c in enumerate(derived):
        g = env.group_of(c)
        if g == "hh":
            out[c] = out["hh_id"].astype("float64") * 7.0 + 1000.0 + i
        elif g is None:
            out[c] = np.arange(n, dtype="float64") * 11.5 + 500.0 + i
    if index == "shuffled":
        out.index = np.random.RandomState(n).permutation(n)
    elif index == "strings":
        out.index = [f"r{v}" for v in np.random.RandomState(n + 1).permutation(n)]
    elif index == "offset":
        out.index = np.arange(n) + 5
    for i, c in enumerate(extra):
        if c.endswith("_bg"):
            out[c] = np.arange(n, dtype="float64") % 3  # bg_id is not an input: no constancy requirement applies
        elif c.endswith("_hh"):
            out[c] = out["hh_id"].astype("float64") * 1.5 + i
        else:
            out[c] = np.arange(n, dtype="float64") * 3.25 + i
    return out


def check(df, date, S, opts):
    nodes = env.all_nodes(date)
    fails = []
    base_targets = sorted(set(nodes) | set(S))
    base_error = None
    try:
        base = env.simulate(df, date, targets=base_targets, rounding=opts["rounding"])
    except Exception as e:  # noqa: BLE001
        base, base_error = None, e
    def _base(name):
        m = _UNIT.match(name)
        return m.group("base") if m else name  # the quantity, whatever unit / aggregation level

    # an extra column named like another unit of a rule is "unused" only as long as no *derived*
    # sibling of it (same quantity, third unit) is requested: that one may legitimately be
    # converted from the supplied column instead of from the rule
    s_bases = {_base(t) for t in S}
    derived_extra = [c for c in opts.get("extra_derived", []) if c not in S and _base(c) not in s_bases]
    data = with_extra(df, opts["extra"], derived_extra, opts.get("index", "range"))
    arg = {c: data[c] for c in data.columns} if opts["as_dict"] else data
    try:
        res = env.simulate(arg, date, targets=list(S), rounding=opts["rounding"], debug=opts["debug"],
                           check_minimal_specification=opts["cms"])
    except Exception as e:  # noqa: BLE001
        if base is None:
            return []  # nothing is computable for this case: completeness is C08's subject
        # every t in S was computed by the baseline run, so the same request must not fail
        return [core.Failure(f"raises:{type(e).__name__}:{str(e)[:50]}",
                             f"{date}: targets={S} {opts} raises {type(e).__name__}: {e!s:.120} "
                             "although every target is computable in the all-node run")]
    if base is None:
        # the request for S succeeded but the request for (all nodes + S) failed: whether t can be
        # computed depends on which other targets are requested
        return [core.Failure(f"all-node-run-raises:{type(base_error).__name__}",
                             f"{date}: targets={S} can be computed, but requesting them together with all other nodes raises "
                             f"{type(base_error).__name__}: {base_error!s:.150}")]
    if len(res) != len(df):
        return [core.Failure("rows", f"{date}: result has {len(res)} rows for {len(df)} input rows")]
    expected_cols = set(S) | (set(data.columns) if opts["debug"] else set())
    if set(res.columns) != expected_cols:
        fails.append(core.Failure("columns", f"{date}: result columns differ from the requested targets: "
                                  f"missing={sorted(expected_cols - set(res.columns))[:5]} extra={sorted(set(res.columns) - expected_cols)[:5]}"))
    if opts["debug"]:
        for c in ("p_id", "hh_id"):
            if c in res.columns and (res[c].isna().any() or res[c].tolist() != df[c].tolist()):
                fails.append(core.Failure("row-order", f"{date}: debug output column {c} is not in input order"))
    common = [t for t in S if t in res.columns]
    key = np.arange(len(df))
    diffs = compare.compare_frames(base, res, key_base=key, key_other=key, columns=common)
    for d in diffs[:1]:
        fails.append(core.Failure(f"{d['kind']}:{d['column']}",
                                  f"{date}: {d['column']} differs between targets={S} and the all-node run ({d})"))
    return fails


def oracle(case, date, sh, ctx):
    pop, S, opts = case
    fails = check(pop.df, date, S, opts)
    nodes = set(env.all_nodes(date))
    has_derived = any(t not in nodes for t in S)
    if has_derived or len(S) >= 2:
        sh.nontrivial.add(core.digest([S, opts, pop.df["p_id"].tolist(), pop.df["bruttolohn_m"].tolist()]))
    sh.classes["S-has-derived" if has_derived else "S-plain"] += 1
    sh.classes[f"|S|={len(S)}"] += 1
    for k in ("debug", "as_dict"):
        sh.classes[f"{k}={opts[k]}"] += 1
    sh.sample({"date": str(date), "targets": S, "options": opts, "population": popgen.brief(pop.df, max_rows=4)}, limit=3)
    for f in fails:
        if f.key not in ctx["known"]:
            f.case = popcheck.payload(pop.df, date, S=S, opts=opts)
    return fails


def run(tier, seed, t0):
    return popcheck.run(__name__, tier, seed, t0)


def replay(case):
    df, date = popcheck.unpack(case)
    return check(df, date, case["S"], case["opts"])
