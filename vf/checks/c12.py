"""C12 -- derived units (marriage, tax, family, needs, housing) partition correctly.

Oracle: reference model vf.refmodel.units (from hh_concepts.md / GEP 1 / fixture notes) compared
as *partitions* with the ids the code derives, plus the nesting invariants
bg within fg within hh, eg within fg, wthh within hh, bg within wthh, and "groups of different
households never share an id".
 E  exhaustive: every pointer structure of <= 3 persons (6 age classes) and <= 4 persons (4 age
    classes) in <= 2 households x every row order, evaluated on the grouping functions directly;
 R  random: generated populations of up to ~20 persons through the full interface (also wthh_id).
"""
from __future__ import annotations

import itertools

import numpy as np
import pandas as pd

from _gettsim.groupings import create_groupings

from .. import compare, core, dates, env, popcheck, popgen
from ..refmodel import units as U

PROP = "C12"
LEVEL = "exploration"
RULE = (
    "cases: (E) enumerated pointer structures x all row orders; (R) (date stratum, generated population).  "
    "Non-trivial = some unit has >= 2 members whose rows are not adjacent, or the structure contains a "
    "special shape (step child, three generations, partnered child, parent in another household, spouse "
    "living apart, child covering its own needs); distinct = digest of (structure, order)."
)
ASSUMPTIONS = [
    "unit definitions as read in vf/refmodel/units.py; structures on which the documentation is silent (a qualifying child with two co-resident parents who are not partners) are only checked for the invariants",
    "valid pointer structures: symmetric partners, Einstandspartner share a household, parents >= 14 years older",
]
BUDGET = {"quick": (16, 12), "thorough": (None, 80)}
GEN = dict(mode="mid", max_households=5)
PIDS = [13, 2, 7, 40, 21]
HHS = [5, 3]


def structures(n, ages):
    """All valid pointer structures of n persons in <= 2 households (canonical labelling)."""
    def hh_strings(k):
        if k == 1:
            yield (0,)
            return
        for s in hh_strings(k - 1):
            for h in range(min(max(s) + 1, 1) + 1):
                yield (*s, h)

    persons = range(n)
    for age in itertools.product(ages, repeat=n):
        adults = [i for i in persons if age[i] >= 20]
        pairs = list(itertools.combinations(adults, 2))
        matchings = [()]
        for p in pairs:
            matchings.append((p,))
        for p, q in itertools.combinations(pairs, 2):
            if not set(p) & set(q):
                matchings.append((p, q))
        elig = {i: [j for j in persons if age[j] >= age[i] + 14] for i in persons}
        parent_opts = {}
        for i in persons:
            opts = [(-1, -1)]
            for a in elig[i]:
                opts.append((a, -1))
                opts.append((-1, a))  # which of the two parent columns holds the parent carries no meaning
            for a, b in itertools.combinations(elig[i], 2):
                opts.append((a, b))
                opts.append((b, a))
            parent_opts[i] = opts
        for hh in hh_strings(n):
            for m in matchings:
                type_opts = []
                for (a, b) in m:
                    if hh[a] == hh[b]:
                        type_opts.append(["both_gv", "both_sep", "einst"])
                    else:
                        type_opts.append(["apart_gv"])
                for types in itertools.product(*type_opts):
                    partner = {}
                    for (a, b), t in zip(m, types):
                        partner[a] = (b, t)
                        partner[b] = (a, t)
                    for parents in itertools.product(*[parent_opts[i] for i in persons]):
                        if any(partner.get(i, (None,))[0] in parents[i] for i in persons):
                            continue  # nobody is the partner of the own parent
                        haskid = [any(i in parents[j] for j in persons) for i in persons]
                        eb_elig = [i for i in persons if age[i] < 25 and i not in partner and not haskid[i]
                                   and any(p >= 0 and hh[p] == hh[i] for p in parents[i])]
                        for eb in itertools.product([False, True], repeat=len(eb_elig)):
                            yield {"age": age, "hh": hh, "partner": partner, "parents": parents,
                                   "eigenbedarf": {i: e for i, e in zip(eb_elig, eb)}}


def to_arrays(s):
    n = len(s["age"])
    pid = PIDS[:n]
    ehe, einst, gv = [-1] * n, [-1] * n, [False] * n
    for i, (j, t) in s["partner"].items():
        if t in ("both_gv", "both_sep", "apart_gv"):
            ehe[i] = pid[j]
            gv[i] = t in ("both_gv", "apart_gv")
        if t in ("both_gv", "both_sep", "einst"):
            einst[i] = pid[j]
    e1 = [pid[p[0]] if p[0] >= 0 else -1 for p in s["parents"]]
    e2 = [pid[p[1]] if p[1] >= 0 else -1 for p in s["parents"]]
    eb = [bool(s["eigenbedarf"].get(i, False)) for i in range(n)]
    return {"p_id": pid, "hh_id": [HHS[h] for h in s["hh"]], "alter": list(s["age"]), "ehe": ehe, "einst": einst,
            "e1": e1, "e2": e2, "gv": gv, "eb": eb}


def code_units(a, order):
    g = create_groupings()
    sel = lambda k, dt="int64": np.array([a[k][i] for i in order], dtype=dt)  # noqa: E731
    p_id, hh_id, alter = sel("p_id"), sel("hh_id"), sel("alter")
    fg = g["fg_id"](p_id=p_id, hh_id=hh_id, alter=alter, p_id_einstandspartner=sel("einst"),
                    p_id_elternteil_1=sel("e1"), p_id_elternteil_2=sel("e2"))
    bg = g["bg_id"](fg_id=fg, alter=alter, eigenbedarf_gedeckt=sel("eb", "bool"))
    eg = g["eg_id"](p_id=p_id, p_id_einstandspartner=sel("einst"))
    ehe = g["ehe_id"](p_id=p_id, p_id_ehepartner=sel("ehe"))
    sn = g["sn_id"](p_id=p_id, p_id_ehepartner=sel("ehe"), gemeinsam_veranlagt=sel("gv", "bool"))
    return {"fg": fg.tolist(), "bg": bg.tolist(), "eg": eg.tolist(), "ehe": ehe.tolist(), "sn": sn.tolist()}


def compare_units(a, order, code, wthh=None):
    """-> list of (key, message)."""
    sel = lambda k: [a[k][i] for i in order]  # noqa: E731
    ref = U.units(sel("p_id"), sel("hh_id"), sel("alter"), sel("ehe"), sel("einst"), sel("e1"), sel("e2"), sel("gv"), sel("eb"))
    out = []
    hh = sel("hh_id")
    if not ref["underspecified"]:
        for u in ("ehe", "eg", "sn", "fg", "bg"):
            if not compare.same_partition(code[u], ref[u]):
                out.append((f"partition:{u}_id", f"{u}_id = {code[u]} but the unit definition gives the partition {ref[u]} "
                            f"(p_id={sel('p_id')}, hh={hh}, alter={sel('alter')}, ehe={sel('ehe')}, einst={sel('einst')}, e1={sel('e1')}, e2={sel('e2')}, eigenbedarf={sel('eb')})"))
    if not U.refines(code["bg"], code["fg"]):
        out.append(("nesting:bg-in-fg", f"a Bedarfsgemeinschaft spans several Familiengemeinschaften: bg={code['bg']} fg={code['fg']}"))
    if not U.refines(code["fg"], hh):
        out.append(("nesting:fg-in-hh", f"a Familiengemeinschaft spans several households: fg={code['fg']} hh={hh}"))
    if not U.refines(code["eg"], code["fg"]):
        out.append(("nesting:eg-in-fg", f"Einstandspartner in different Familiengemeinschaften: eg={code['eg']} fg={code['fg']}"))
    if wthh is not None:
        if not U.refines(wthh, hh):
            out.append(("nesting:wthh-in-hh", f"a Wohngeld part-household spans several households: wthh={wthh} hh={hh}"))
        if not U.refines(code["bg"], wthh):
            out.append(("nesting:bg-in-wthh", f"a Bedarfsgemeinschaft is split over Wohngeld part-households: bg={code['bg']} wthh={wthh}"))
    return out, ref


def special(a):
    n = len(a["p_id"])
    idx = {p: i for i, p in enumerate(a["p_id"])}
    tags = set()
    for i in range(n):
        ps = [p for p in (a["e1"][i], a["e2"][i]) if p >= 0]
        for p in ps:
            j = idx[p]
            if a["hh_id"][j] != a["hh_id"][i]:
                tags.add("parent-elsewhere")
            if a["einst"][j] >= 0 and a["einst"][j] not in ps:
                tags.add("step-child")
            if any(q >= 0 for q in (a["e1"][j], a["e2"][j])):
                tags.add("three-generations")
        if ps and (a["einst"][i] >= 0 or a["ehe"][i] >= 0):
            tags.add("partnered-child")
        if a["ehe"][i] >= 0 and a["einst"][i] < 0:
            tags.add("spouse-apart")
        if a["eb"][i]:
            tags.add("own-needs")
    return tags


def exhaustive_shard(desc):
    sh = core.Shard()
    known = core.load_known(PROP)
    n, ages, part, nparts = desc["n"], desc["ages"], desc["part"], desc["nparts"]
    sampled = 0
    for k, s in enumerate(structures(n, ages)):
        if k % nparts != part:
            continue
        if desc.get("every", 1) > 1 and dates.sub_seed(desc["seed"], "c12", n, k) % desc["every"] != 0:
            continue
        a = to_arrays(s)
        tags = special(a)
        sampled += 1
        for order in itertools.permutations(range(n)):
            sh.evaluations += 1
            try:
                code = code_units(a, order)
            except Exception as e:  # noqa: BLE001
                key = f"raises:{type(e).__name__}"
                if key in known:
                    sh.known_seen[key] += 1
                elif not any(f.key == key for f in sh.failures):
                    sh.failures.append(core.Failure(key, f"grouping functions raise {type(e).__name__}: {e!s:.100} on {a} order {order}", {"kind": "E", "arrays": a, "order": list(order)}))
                continue
            diffs, ref = compare_units(a, list(order), code)
            if ref["underspecified"]:
                sh.classes["E-underspecified"] += 1
            groups_spread = any(len(set(code[u])) < n and code[u] != sorted(code[u]) for u in ("fg", "bg", "eg", "ehe", "sn"))
            if tags or groups_spread:
                sh.nontrivial.add(core.digest([n, k, order]))
            for key, msg in diffs:
                if key in known:
                    sh.known_seen[key] += 1
                elif not any(f.key == key for f in sh.failures):
                    sh.failures.append(core.Failure(key, msg, {"kind": "E", "arrays": a, "order": list(order)}))
        for t in tags:
            sh.classes[f"E-{t}"] += 1
        if sampled <= 2:
            sh.sample({"sub_check": "E", "structure": a, "row_orders": "all"}, limit=2)
    sh.extra[f"structures_n{n}"] = sampled
    return sh


# ---- R: random populations through the interface ---------------------------------------------


def arrays_from_df(df):
    return {"p_id": df["p_id"].tolist(), "hh_id": df["hh_id"].tolist(), "alter": df["alter"].tolist(),
            "ehe": df["p_id_ehepartner"].tolist(), "einst": df["p_id_einstandspartner"].tolist(),
            "e1": df["p_id_elternteil_1"].tolist(), "e2": df["p_id_elternteil_2"].tolist(),
            "gv": df["gemeinsam_veranlagt"].tolist(), "eb": df["eigenbedarf_gedeckt"].tolist()}


def check_population(df, date):
    a = arrays_from_df(df)
    try:
        res = env.simulate(df, date, targets=["fg_id", "bg_id", "eg_id", "ehe_id", "sn_id", "wthh_id"])
    except Exception as e:  # noqa: BLE001
        # no identifiers at all for a valid population: the units are not derived as prescribed
        import traceback

        tb = [f for f in traceback.extract_tb(e.__traceback__) if "/_gettsim/" in f.filename]
        where = tb[-1].name if tb else "?"
        return [core.Failure(f"raises:{type(e).__name__}:{where}", f"{date}: deriving the unit identifiers raises {type(e).__name__}: {e!s:.120} in {where} "
                             f"(p_id={a['p_id']}, hh={a['hh_id']}, alter={a['alter']}, einst={a['einst']}, e1={a['e1']}, e2={a['e2']})")], a, {}
    code = {u: res[f"{u}_id"].tolist() for u in ("fg", "bg", "eg", "ehe", "sn")}
    diffs, ref = compare_units(a, list(range(len(df))), code, wthh=res["wthh_id"].tolist())
    # ids of different households never collide
    for u in ("fg", "bg"):
        if not U.refines(code[u], a["hh_id"]):
            diffs.append((f"collision:{u}_id", f"{u}_id {code[u]} is shared by persons of different households {a['hh_id']}"))
    return [core.Failure(k, f"{date}: {m}") for k, m in diffs], a, code


def oracle(pop, date, sh, ctx):
    fails, a, code = check_population(pop.df, date)
    tags = special(a)
    spread = any(len(set(code[u])) < len(pop.df) and code[u] != sorted(code[u]) for u in code)
    if tags or spread:
        sh.nontrivial.add("R|" + core.digest([a, ctx["iso"]]))
    for t in tags:
        sh.classes[f"R-{t}"] += 1
    sh.sample({"sub_check": "R", "date": str(date), "structure": {k: v[:10] for k, v in a.items()}}, limit=2)
    for f in fails:
        if f.key not in ctx["known"]:
            small = popgen.minimize_df(pop.df, lambda d, k=f.key: any(g.key == k for g in check_population(d, date)[0]))
            f.case = popcheck.payload(small, date, kind="R")
    return fails


def large_shard(desc):
    """Large tables (> 1000 rows, > 100 children covering their own needs): generated populations
    replicated with fresh unsorted ids, grouping functions vs reference (size-dependent numbering)."""
    import datetime

    sh = core.Shard()
    known = core.load_known(PROP)
    date = datetime.date.fromisoformat(desc["date"])
    archs = ["adult_child", "adult_child", "couple_kids", "single_parent", "patchwork", "three_gen", "child_with_partner"]

    def oracle(pop):
        df = pop.df.copy()
        young = (df["alter"] < 25) & (df["alter"] >= 15) & (df["p_id_einstandspartner"] < 0) & (df["p_id_elternteil_1"] >= 0)
        df.loc[young, "eigenbedarf_gedeckt"] = True
        k = -(-desc["rows"] // len(df))
        big = popgen.replicate(df, k, seed=desc["seed"] % 2**31)
        a = arrays_from_df(big)
        order = list(range(len(big)))
        try:
            code = code_units(a, order)
        except Exception as e:  # noqa: BLE001
            return [core.Failure(f"raises:{type(e).__name__}", f"{date}: grouping functions raise {type(e).__name__}: {e!s:.100} on a table of {len(big)} rows",
                                 popcheck.payload(big, date, kind="L"))]
        diffs, ref = compare_units(a, order, code)
        for u in ("fg", "bg"):
            if not U.refines(code[u], a["hh_id"]):
                diffs.append((f"collision:{u}_id", f"{u}_id is shared by persons of different households in a table of {len(big)} rows"))
        sh.nontrivial.add("L|" + core.digest([desc["date"], a["p_id"][:40], len(big)]))
        sh.classes["large-table(>1000 rows)"] += 1
        if int(big["eigenbedarf_gedeckt"].sum()) >= 100:
            sh.classes["large-table-with>=100-own-needs-children"] += 1
        sh.sample({"sub_check": "L", "rows": int(len(big)), "own_needs_children": int(big["eigenbedarf_gedeckt"].sum())}, limit=1)
        fails = [core.Failure(k_, f"{date}: {m[:600]}") for k_, m in diffs]
        for f in fails:
            if f.key not in known:
                f.case = popcheck.payload(big, date, kind="L")
        return fails

    core.explore(popgen.populations(date, mode="mid", max_households=3, archetypes=archs), oracle, n=desc["n"],
                 seed=dates.sub_seed(desc["seed"], PROP, "large", desc["date"]), shard=sh, known=known, shrink=False)
    return sh


def run(tier, seed, t0):
    ages6 = [10, 20, 24, 25, 40, 70]
    ages4 = [10, 24, 25, 45]
    descs = []
    for n in (1, 2, 3):
        parts = 1 if n < 3 else 16
        descs += [{"n": n, "ages": ages6, "part": i, "nparts": parts, "seed": seed} for i in range(parts)]
    # n = 4: a seed-dependent 1/3 sample in thorough, 1/40 in quick (both parent-column placements are enumerated)
    descs += [{"n": 4, "ages": ages4, "part": i, "nparts": 32, "seed": seed, "every": 3 if tier == "thorough" else 40} for i in range(32)]
    if tier == "thorough":
        descs += [{"n": 5, "ages": [10, 24, 45], "part": i, "nparts": 32, "seed": seed, "every": 400} for i in range(32)]
    extra = [("vf.checks.c12", "exhaustive_shard", descs)]
    big_days = [s_[0].isoformat() for s_ in dates.pick(dates.strata(), 8 if tier == "quick" else 32, seed, PROP, "large")]
    extra.append(("vf.checks.c12", "large_shard", [{"date": d, "rows": 1500, "n": 3 if tier == "quick" else 10, "seed": dates.sub_seed(seed, "l", d)} for d in big_days]))
    return popcheck.run(__name__, tier, seed, t0, extra_descs=extra, exhaustive=False)


def replay(case):
    if case.get("kind") == "E":
        a, order = case["arrays"], case["order"]
        code = code_units(a, order)
        diffs, _ = compare_units(a, order, code)
        return [core.Failure(k, m) for k, m in diffs]
    df, date = popcheck.unpack(case)
    if case.get("kind") == "L":
        a = arrays_from_df(df)
        order = list(range(len(df)))
        diffs, _ = compare_units(a, order, code_units(a, order))
        return [core.Failure(k, m[:600]) for k, m in diffs]
    return check_population(df, date)[0]
