"""C05 -- supplying a computed column as data is equivalent to computing it.

Oracle (round trip): simulate(data + {n: simulate(data)[n]}) == simulate(data) on every other
node, the call does not raise, and a FunctionsAndColumnsOverlapWarning names n.
"""
from __future__ import annotations

import warnings

import networkx as nx
import numpy as np
from hypothesis import strategies as st

from _gettsim.interface import FunctionsAndColumnsOverlapWarning, compute_taxes_and_transfers

from .. import compare, core, env, popcheck, popgen
from .c01 import _Case
from .c04 import derived_names

PROP = "C05"
LEVEL = "exploration"
RULE = (
    "case = (date stratum >= 2015, population, rounding flag, k nodes of the DAG incl. derived "
    "time-unit names); each node's own production column is fed back as a data column.  "
    "Non-trivial = the node has descendants among the targets and its column is not constant; "
    "distinct = (stratum, node, population digest)."
)
ASSUMPTIONS = [
    "the supplied column is exactly the pandas column the first run returned (dtype as returned)",
    "float 1e-9 relative; ids as partitions; rest exact (dtype kind not compared for the overridden run's descendants)",
]
BUDGET = {"quick": (32, 4), "thorough": (None, 12)}
GEN = dict(mode="branch", max_households=3)
K = {"quick": 8, "thorough": 40}


def strategy(date, ctx):
    nodes = env.all_nodes(date)
    units, _ = derived_names(date)
    k = K[ctx["tier"]]

    @st.composite
    def s(draw):
        pop = draw(popgen.populations(date, **GEN))
        grouped = [n for n in nodes if env.group_of(n) is not None] or nodes
        pool = st.one_of(st.sampled_from(nodes), st.sampled_from(nodes), st.sampled_from(grouped),
                         st.sampled_from(units) if units else st.sampled_from(nodes))
        chosen = sorted(set(draw(st.lists(pool, min_size=k, max_size=k))))
        pairs = draw(st.booleans())
        rounding = draw(st.booleans())
        return _Case((pop, chosen, rounding, pairs))

    return s()


def run_with(df, date, supplied: dict, targets, rounding):
    params, functions = env.policy_env(date)
    data = df.copy()
    for n, col in supplied.items():
        data[n] = col.to_numpy()
    with warnings.catch_warnings(record=True) as w:
        warnings.simplefilter("always")
        res = compute_taxes_and_transfers(data=data, params=params, functions=functions,
                                          targets=targets, rounding=rounding)
    overlap = [str(x.message) for x in w if issubclass(x.category, FunctionsAndColumnsOverlapWarning)]
    return res, overlap


def check_nodes(df, date, chosen, rounding, pairs, stats=None):
    nodes = env.all_nodes(date)
    nodeset = set(nodes)
    targets0 = sorted(nodeset | set(chosen))
    base = env.simulate(df, date, targets=targets0, rounding=rounding)
    dag = env.dag_info(date)["dag"]
    # rules, grouping ids and aggregation nodes (built-in specs, automatic sums) are computations that
    # the supplied column overrides; derived time-unit variants are simply not created
    functions = env.policy_env(date)[1]
    rules = set(functions) | {"fg_id", "bg_id", "eg_id", "ehe_id", "sn_id", "wthh_id"}
    for n_ in nodeset:
        if n_ not in functions and env.group_of(n_) is not None:
            vv = None
            try:
                from .c13 import variants as _variants

                vv = _variants(n_)
            except Exception:  # noqa: BLE001
                vv = None
            is_unit_variant_of_rule = bool(vv) and any(v in functions for u_, v in vv[0].items() if v != n_)
            if not is_unit_variant_of_rule:
                rules.add(n_)
    key = np.arange(len(df))
    fails = []
    groups = [[n] for n in chosen]
    if pairs and len(chosen) >= 2:
        groups.append(chosen[:2])
    for grp in groups:
        supplied = {n: base[n] for n in grp}
        targets = [t for t in nodes if t not in grp]
        tag = "+".join(grp)
        try:
            res, overlap = run_with(df, date, supplied, targets, rounding)
        except Exception as e:  # noqa: BLE001
            fails.append(core.Failure(f"raises:{tag}", f"{date}: supplying {grp} (own production values, dtype "
                                      f"{[str(base[n].dtype) for n in grp]}) raises {type(e).__name__}: {e!s:.150}"))
            continue
        for n in grp:
            # only *rules* (entries of the environment's functions dict) and the grouping
            # ids are "overridden"; derived time-unit nodes are simply not created
            if n in rules and not any(f'"{n}"' in m or f"'{n}'" in m or n in m for m in overlap):
                fails.append(core.Failure(f"no-warning:{n}", f"{date}: column {n} overrides a rule but no FunctionsAndColumnsOverlapWarning names it"))
        diffs = compare.compare_frames(base, res, key_base=key, key_other=key, columns=targets,
                                       check_dtype=False)
        if diffs:
            d = diffs[0]
            fails.append(core.Failure(f"value:{tag}->{d['column']}" if len(diffs) else "",
                                      f"{date}: supplying {grp} changes {d['column']} ({d}); {len(diffs)} node(s) differ"))
        # the warning must also come when n is the *only* overriding column: repeat with the minimal
        # data set for one consumer of n
        if len(grp) == 1 and grp[0] in functions and grp[0] in dag:
            n = grp[0]
            consumers = sorted(dag.successors(n))
            if consumers:
                c = consumers[len(df) % len(consumers)]
                try:
                    mdag, _, _ = env.build_dag(functions, [c], list(df.columns) + [n])
                    need = [r for r in mdag.nodes if mdag.in_degree(r) == 0 and r in df.columns]
                    data_min = df[sorted(set(need) | {"p_id"})].copy()
                    data_min[n] = base[n].to_numpy()
                    params = env.policy_env(date)[0]
                    with warnings.catch_warnings(record=True) as w:
                        warnings.simplefilter("always")
                        compute_taxes_and_transfers(data=data_min, params=params, functions=functions, targets=[c], rounding=rounding)
                    ov = [str(x.message) for x in w if issubclass(x.category, FunctionsAndColumnsOverlapWarning)]
                    if not any(n in m for m in ov):
                        fails.append(core.Failure(f"no-warning-minimal:{n}", f"{date}: with the minimal data for target {c}, column {n} overrides a rule but no FunctionsAndColumnsOverlapWarning names it"))
                    if stats is not None:
                        stats.append(("minimal:" + n, True, False))
                except Exception:  # noqa: BLE001
                    pass
        if stats is not None:
            for n in grp:
                desc = n in dag and any(True for _ in nx.descendants(dag, n))
                const = base[n].nunique(dropna=False) <= 1
                stats.append((n, bool(desc), bool(const)))
    return fails


def oracle(case, date, sh, ctx):
    pop, chosen, rounding, pairs = case
    stats = []
    fails = check_nodes(pop.df, date, chosen, rounding, pairs, stats)
    pdg = core.digest([pop.df["p_id"].tolist(), pop.df["bruttolohn_m"].tolist()])
    for n, desc, const in stats:
        sh.classes["node-with-descendants" if desc else "leaf-target"] += 1
        if desc and not const:
            sh.nontrivial.add(f"{ctx['iso']}|{n}|{pdg}")
    sh.extra.setdefault("nodes_fed_back", [])
    for n, _, _ in stats:
        if n not in sh.extra["nodes_fed_back"]:
            sh.extra["nodes_fed_back"].append(n)
    sh.sample({"date": str(date), "nodes": chosen, "rounding": rounding,
               "population": popgen.brief(pop.df, max_rows=4)}, limit=2)
    for f in fails:
        if f.key not in ctx["known"]:
            f.case = popcheck.payload(pop.df, date, chosen=chosen, rounding=rounding, pairs=pairs)
    return fails


def run(tier, seed, t0):
    import importlib

    rc = popcheck.run(__name__, tier, seed, t0)
    return rc


def replay(case):
    df, date = popcheck.unpack(case)
    return check_nodes(df, date, case["chosen"], case["rounding"], case.get("pairs", False))
