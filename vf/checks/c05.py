"""C05 -- supplying a computed column as data is equivalent to computing it.

Oracle (round trip): simulate(data + {n: simulate(data)[n]}) == simulate(data) on every other
node, the call does not raise, and a FunctionsAndColumnsOverlapWarning names n.
"""
from __future__ import annotations

import warnings

import networkx as nx
import numpy as np
import pandas as pd
from hypothesis import strategies as st

from _gettsim.config import TYPES_INPUT_VARIABLES
from _gettsim.interface import FunctionsAndColumnsOverlapWarning, compute_taxes_and_transfers

from .. import compare, core, env, popcheck, popgen
from .c01 import _Case
from .c04 import derived_names

PROP = "C05"
LEVEL = "exploration"
RULE = (
    "case = (date stratum >= 2015 or one of the sampled strata of 2005-2014 with the screened node universe, population, rounding flag, k nodes of the DAG incl. derived "
    "time-unit names); each node's own production column is fed back as a data column.  "
    "Non-trivial = the node has descendants among the targets and its column is not constant; "
    "distinct = (stratum, node, population digest).  In addition up to 3 (quick) / 12 (thorough) rules per "
    "case are supplied with OTHER values of the same dtype and compared with replacing the rule by a user "
    "rule returning these values; non-trivial there = some other node changes (entries 'perturbed:<node>')."
)
ASSUMPTIONS = [
    "the supplied column is exactly the pandas column the first run returned (dtype as returned)",
    "float 1e-9 relative; ids as partitions; rest exact (dtype kind not compared for the overridden run's descendants)",
]
BUDGET = {"quick": (32, 4), "thorough": (None, 8)}
EARLY = 3  # additional strata from 2005-2014 in the quick tier (all of them in the thorough tier)
GEN = dict(mode="branch", max_households=3)
K = {"quick": 8, "thorough": 20}


def group_sum_variants(date):
    """Year <-> month variants (not in the DAG) of group-level DAG nodes that are not explicit rules."""
    from .c13 import variants

    _, functions = env.policy_env(date)
    nodes = set(env.all_nodes(date))
    out = []
    for m in sorted(nodes):
        vv = variants(m)
        if not vv or env.group_of(m) is None or m in functions:
            continue
        fam, u = vv
        if u not in "ym" or any(x in functions for x in fam.values()):
            continue
        other = fam["m" if u == "y" else "y"]
        if other not in nodes and other not in TYPES_INPUT_VARIABLES:
            out.append(other)
    return out


def strategy(date, ctx):
    nodes = env.all_nodes(date)
    units, _ = derived_names(date)
    gsv = group_sum_variants(date)
    k = K[ctx["tier"]]

    @st.composite
    def s(draw):
        pop = draw(popgen.populations(date, **GEN))
        grouped = [n for n in nodes if env.group_of(n) is not None] or nodes
        pool = st.one_of(st.sampled_from(nodes), st.sampled_from(nodes), st.sampled_from(grouped),
                         st.sampled_from(units) if units else st.sampled_from(nodes))
        chosen = sorted(set(draw(st.lists(pool, min_size=k, max_size=k))))
        if gsv:
            chosen = sorted(set(chosen) | {draw(st.sampled_from(gsv))})
        pairs = draw(st.booleans())
        rounding = draw(st.booleans())
        return _Case((pop, chosen, rounding, pairs))

    return s()


def run_with(df, date, supplied: dict, targets, rounding):
    params, functions = env.policy_env(date)
    data = df.copy()
    for n, col in supplied.items():
        data[n] = col.to_numpy()
    with warnings.catch_warnings(record=True) as w:
        warnings.simplefilter("always")
        res = compute_taxes_and_transfers(data=data, params=params, functions=functions,
                                          targets=targets, rounding=rounding)
    overlap = [str(x.message) for x in w if issubclass(x.category, FunctionsAndColumnsOverlapWarning)]
    return res, overlap


_IDS = {"fg_id", "bg_id", "eg_id", "ehe_id", "sn_id", "wthh_id"}
N_PERTURB = {"quick": 3, "thorough": 6}


def reader(name, src, typ):
    """User rule `name(src) -> typ` that returns the data column `src` unchanged."""
    scope = {}
    exec(f"def {name}({src}: {typ}) -> {typ}:\n    return {src}\n", scope)  # noqa: S102
    return scope[name]


def perturbed(col):
    """Other values of the same dtype (constant within any group if `col` is)."""
    v = col.to_numpy()
    if v.dtype.kind == "b":
        return ~v, "bool"
    if v.dtype.kind in "iu":
        return v + 1, "int"
    if v.dtype.kind == "f":
        return v * 1.25 + 3.0, "float"
    return None, None


def check_used(df, date, n, base, rounding, nodes, stats=None):
    """Sentence 1: the supplied column is *used in place of* the computation.

    Differential oracle: supplying other values X' for rule n as a data column must give, on every
    other node, what replacing rule n by a user rule that returns X' gives (the user-function path is
    the subject of C06 and implemented by other code).  Equal values (the round trip above) cannot
    see a consumer that keeps using the computation.
    """
    params, functions = env.policy_env(date)
    new, typ = perturbed(base[n])
    if new is None:
        return []
    targets = [t for t in nodes if t != n]
    data_a = df.copy()
    data_a[n] = new
    src = f"vf_supplied_{n}"
    data_b = df.copy()
    data_b[src] = new
    outs = []
    for data, fns in ((data_a, functions), (data_b, {**functions, n: reader(n, src, typ)})):
        try:
            with warnings.catch_warnings():
                warnings.simplefilter("ignore")
                outs.append(compute_taxes_and_transfers(data=data, params=params, functions=fns,
                                                        targets=targets, rounding=rounding))
        except Exception as e:  # noqa: BLE001
            outs.append(e)
    a, b = outs
    if isinstance(a, Exception) or isinstance(b, Exception):
        if isinstance(a, Exception) and isinstance(b, Exception):
            if stats is not None:
                stats.append(("perturbed-both-raise:" + n, False, True))
            return []
        which = "as data column" if isinstance(a, Exception) else "through a user rule"
        e = a if isinstance(a, Exception) else b
        return [core.Failure(f"perturbed-raises:{n}", f"{date}: other values for {n} supplied {which} raise "
                             f"{type(e).__name__}: {e!s:.150}, the other way they do not")]
    key = np.arange(len(df))
    diffs = compare.compare_frames(b, a, key_base=key, key_other=key, columns=targets, check_dtype=False, rtol=1e-12)
    if stats is not None:
        changed = compare.compare_frames(base, a, key_base=key, key_other=key, columns=targets, check_dtype=False)
        stats.append(("perturbed:" + n, bool(changed), False))
    if diffs:
        d = diffs[0]
        return [core.Failure(f"not-used:{n}->{d['column']}",
                             f"{date}: with other values supplied for {n}, {d['column']} is not what it is when rule {n} "
                             f"is replaced by a user rule returning these values ({d}); {len(diffs)} node(s) differ")]
    return []


def check_variant_used(df, date, n, base, rounding, nodes, stats=None):
    """A supplied *derived* group-level column in the other of the units year / month.

    n is the month (year) variant of a DAG node m that is not an explicit rule (an automatic group sum):
    supplying n with other values must give, on every other node, what supplying m with the 12-fold
    (12th) values gives.  Monthly amounts are whole numbers, so both conversions are exact in binary
    floating point and no rounding step downstream can tell the two runs apart."""
    from .c13 import variants

    params, functions = env.policy_env(date)
    vv = variants(n)
    if not vv or env.group_of(n) is None:
        return []
    fam, u_n = vv
    nodeset = set(nodes)
    m = next((x for u, x in fam.items() if x in nodeset and x != n), None)
    if m is None or m in functions or any(x in functions for x in fam.values()) or base[m].dtype.kind != "f":
        return []
    u_m = next(u for u, x in fam.items() if x == m)
    if {u_n, u_m} != {"y", "m"}:
        return []
    monthly = np.floor(np.abs(base[m].to_numpy()) / (12.0 if u_m == "y" else 1.0) * 1.25) + 3.0
    val = {"m": monthly, "y": 12.0 * monthly}
    targets = [t for t in nodes if t not in fam.values()]
    outs = []
    for name, u in ((n, u_n), (m, u_m)):
        data = df.copy()
        data[name] = val[u]
        try:
            with warnings.catch_warnings():
                warnings.simplefilter("ignore")
                outs.append(compute_taxes_and_transfers(data=data, params=params, functions=functions,
                                                        targets=targets, rounding=rounding))
        except Exception as e:  # noqa: BLE001
            outs.append(e)
    a, b = outs
    if isinstance(a, Exception) or isinstance(b, Exception):
        if type(a) is type(b):
            return []
        e = a if isinstance(a, Exception) else b
        return [core.Failure(f"variant-raises:{n}", f"{date}: supplying {n if isinstance(a, Exception) else m} raises {type(e).__name__}: {e!s:.150}, "
                             f"supplying the same amounts as {m if isinstance(a, Exception) else n} does not")]
    key = np.arange(len(df))
    diffs = compare.compare_frames(b, a, key_base=key, key_other=key, columns=targets, check_dtype=False, rtol=1e-12)
    if stats is not None:
        changed = compare.compare_frames(base, b, key_base=key, key_other=key, columns=targets, check_dtype=False)
        stats.append(("perturbed-variant:" + n, bool(changed), False))
    if diffs:
        d = diffs[0]
        return [core.Failure(f"variant-not-used:{n}->{d['column']}",
                             f"{date}: with other values supplied as {n}, {d['column']} is not what it is when the same amounts are "
                             f"supplied as {m} ({d}); {len(diffs)} node(s) differ")]
    return []


def check_nodes(df, date, chosen, rounding, pairs, stats=None, n_perturb=3):
    nodes = env.all_nodes(date)
    nodeset = set(nodes)
    targets0 = sorted(nodeset | set(chosen))
    base = env.simulate(df, date, targets=targets0, rounding=rounding)
    dag = env.dag_info(date)["dag"]
    # rules, grouping ids and aggregation nodes (built-in specs, automatic sums) are computations that
    # the supplied column overrides; derived time-unit variants are simply not created
    functions = env.policy_env(date)[1]
    rules = set(functions) | {"fg_id", "bg_id", "eg_id", "ehe_id", "sn_id", "wthh_id"}
    for n_ in nodeset:
        if n_ not in functions and env.group_of(n_) is not None:
            vv = None
            try:
                from .c13 import variants as _variants

                vv = _variants(n_)
            except Exception:  # noqa: BLE001
                vv = None
            is_unit_variant_of_rule = bool(vv) and any(v in functions for u_, v in vv[0].items() if v != n_)
            if not is_unit_variant_of_rule:
                rules.add(n_)
    key = np.arange(len(df))
    fails = []
    groups = [[n] for n in chosen]
    if pairs and len(chosen) >= 2:
        groups.append(chosen[:2])
    for n in [c for c in chosen if c in functions and c not in _IDS][:n_perturb]:
        fails.extend(check_used(df, date, n, base, rounding, nodes, stats))
    for n in [c for c in chosen if c not in nodeset and env.group_of(c) is not None][:n_perturb]:
        fails.extend(check_variant_used(df, date, n, base, rounding, nodes, stats))
    for grp in groups:
        supplied = {n: base[n] for n in grp}
        targets = [t for t in nodes if t not in grp]
        tag = "+".join(grp)
        try:
            res, overlap = run_with(df, date, supplied, targets, rounding)
        except Exception as e:  # noqa: BLE001
            fails.append(core.Failure(f"raises:{tag}", f"{date}: supplying {grp} (own production values, dtype "
                                      f"{[str(base[n].dtype) for n in grp]}) raises {type(e).__name__}: {e!s:.150}"))
            continue
        for n in grp:
            # only *rules* (entries of the environment's functions dict) and the grouping
            # ids are "overridden"; derived time-unit nodes are simply not created
            if n in rules and not any(f'"{n}"' in m or f"'{n}'" in m or n in m for m in overlap):
                fails.append(core.Failure(f"no-warning:{n}", f"{date}: column {n} overrides a rule but no FunctionsAndColumnsOverlapWarning names it"))
        diffs = compare.compare_frames(base, res, key_base=key, key_other=key, columns=targets,
                                       check_dtype=False)
        if diffs and any(n not in functions and base[n].dtype.kind == "f" for n in grp):
            # A supplied *derived* column (time-unit variant, automatic sum) makes its siblings be derived
            # from it (y = d * 365.25 instead of the sum of yearly amounts), which is the same number only
            # up to floating-point rounding (C13); a statutory rounding step or a threshold downstream
            # turns one ulp into a whole euro when the amount sits exactly on the grid.  Such a case says
            # nothing about C05: if moving the supplied values by one ulp up or down changes the differing
            # columns as well, the case is ill-conditioned and counted, not reported.
            cols = [d_["column"] for d_ in diffs]
            sensitive = False
            for direction in (np.inf, -np.inf):
                sup = {n: (pd.Series(np.nextafter(base[n].to_numpy(), direction)) if n not in functions and base[n].dtype.kind == "f" else base[n])
                       for n in grp}
                try:
                    res2, _ = run_with(df, date, sup, targets, rounding)
                except Exception:  # noqa: BLE001
                    sensitive = True
                    break
                if compare.compare_frames(res, res2, key_base=key, key_other=key, columns=cols, check_dtype=False):
                    sensitive = True
                    break
            if sensitive:
                if stats is not None:
                    stats.append(("ulp-sensitive:" + tag, False, False))
                diffs = []
        if diffs:
            d = diffs[0]
            fails.append(core.Failure(f"value:{tag}->{d['column']}" if len(diffs) else "",
                                      f"{date}: supplying {grp} changes {d['column']} ({d}); {len(diffs)} node(s) differ"))
        # the warning must also come when n is the *only* overriding column: repeat with the minimal
        # data set for one consumer of n
        if len(grp) == 1 and grp[0] in functions and grp[0] in dag:
            n = grp[0]
            consumers = sorted(dag.successors(n))
            if consumers:
                c = consumers[len(df) % len(consumers)]
                try:
                    mdag, _, _ = env.build_dag(functions, [c], list(df.columns) + [n])
                    need = [r for r in mdag.nodes if mdag.in_degree(r) == 0 and r in df.columns]
                    data_min = df[sorted(set(need) | {"p_id"})].copy()
                    data_min[n] = base[n].to_numpy()
                    params = env.policy_env(date)[0]
                    with warnings.catch_warnings(record=True) as w:
                        warnings.simplefilter("always")
                        compute_taxes_and_transfers(data=data_min, params=params, functions=functions, targets=[c], rounding=rounding)
                    ov = [str(x.message) for x in w if issubclass(x.category, FunctionsAndColumnsOverlapWarning)]
                    if not any(n in m for m in ov):
                        fails.append(core.Failure(f"no-warning-minimal:{n}", f"{date}: with the minimal data for target {c}, column {n} overrides a rule but no FunctionsAndColumnsOverlapWarning names it"))
                    if stats is not None:
                        stats.append(("minimal:" + n, True, False))
                except Exception:  # noqa: BLE001
                    pass
        if stats is not None:
            for n in grp:
                desc = n in dag and any(True for _ in nx.descendants(dag, n))
                const = base[n].nunique(dropna=False) <= 1
                stats.append((n, bool(desc), bool(const)))
    return fails


def oracle(case, date, sh, ctx):
    pop, chosen, rounding, pairs = case
    stats = []
    fails = check_nodes(pop.df, date, chosen, rounding, pairs, stats, n_perturb=N_PERTURB[ctx["tier"]])
    pdg = core.digest([pop.df["p_id"].tolist(), pop.df["bruttolohn_m"].tolist()])
    for n, desc, const in stats:
        if n.startswith("perturbed-variant:"):
            sh.classes["derived-variant-supplied:" + ("changes-other-nodes" if desc else "no-other-node-changes")] += 1
        elif n.startswith("ulp-sensitive:"):
            sh.classes["derived-column-case-ill-conditioned(one ulp changes the outcome)"] += 1
        elif n.startswith("perturbed"):
            sh.classes["perturbed:both-ways-raise" if const else
                       ("perturbed:changes-other-nodes" if desc else "perturbed:no-other-node-changes")] += 1
        elif n.startswith("minimal:"):
            sh.classes["minimal-data-warning-call"] += 1
        else:
            sh.classes["node-with-descendants" if desc else "leaf-target"] += 1
        if desc and not const:
            sh.nontrivial.add(f"{ctx['iso']}|{n}|{pdg}")
    sh.extra.setdefault("nodes_fed_back", [])
    for n, _, _ in stats:
        if n not in sh.extra["nodes_fed_back"]:
            sh.extra["nodes_fed_back"].append(n)
    sh.sample({"date": str(date), "nodes": chosen, "rounding": rounding,
               "population": popgen.brief(pop.df, max_rows=4)}, limit=2)
    for f in fails:
        if f.key not in ctx["known"]:
            f.case = popcheck.payload(pop.df, date, chosen=chosen, rounding=rounding, pairs=pairs)
    return fails


def run(tier, seed, t0):
    import importlib

    rc = popcheck.run(__name__, tier, seed, t0)
    return rc


def replay(case):
    df, date = popcheck.unpack(case)
    return check_nodes(df, date, case["chosen"], case["rounding"], case.get("pairs", False), n_perturb=99)
