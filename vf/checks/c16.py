"""C16 -- outputs are finite, non-negative and within statutory caps.

Oracle (invariants on one run of all DAG nodes): (i) every float node is finite and the run does
not fail with an arithmetic error; (ii) every default target is >= 0; (iii) a table of caps, each
written from a named parameter of params(date) or from a before/after pair of nodes of the same
run.  Populations come from the *extreme* amount distribution (zeros, 10^4..2*10^6 incomes and
wealth, rental losses, ages 0-100, up to ten children).
"""
from __future__ import annotations

import numpy as np

from _gettsim.config import DEFAULT_TARGETS

from .. import core, env, popcheck, popgen

PROP = "C16"
LEVEL = "exploration"
RULE = (
    "case = (change-date stratum >= 2015, population from the extreme amount distribution).  A distinct "
    "non-trivial item is a (stratum, cap or target) pair whose capped quantity / target was > 0 for "
    "some person of some generated population (so that the cap or the sign condition actually binds)."
)
ASSUMPTIONS = [
    "valid populations per DESIGN.md 2.2, extreme amounts (incomes/wealth up to 2*10^6, rental income down to -10^5)",
    "slack 1e-6 absolute + 1e-9 relative on every inequality",
    "caps for health / long-term-care contributions allow the full (employee+employer) rate for the self-employed and an additional full-rate contribution on pension income, as the rules implement it",
]
BUDGET = {"quick": (32, 12), "thorough": (None, 80)}
GEN = dict(mode="extreme", max_households=4, max_children=13)
TOL = 1e-6


def le(a, b):
    a = np.asarray(a, dtype=float)
    b = np.asarray(b, dtype=float)
    return a <= b + TOL + 1e-9 * np.maximum(np.abs(a), np.abs(b))


def caps(res, df, params, date):
    """Yield (label, lhs, rhs)."""
    c = res
    sv = params["sozialv_beitr"]
    selbst = df["selbstständig"].to_numpy()

    def has(*names):
        return all(n in c.columns for n in names)

    if has("arbeitsl_geld_2_m_bg", "arbeitsl_geld_2_vor_vorrang_m_bg"):
        yield "alg2_after<=before_priority", c["arbeitsl_geld_2_m_bg"], c["arbeitsl_geld_2_vor_vorrang_m_bg"]
    if has("wohngeld_m_wthh", "wohngeld_anspruchshöhe_m_wthh"):
        yield "wohngeld_after<=entitlement", c["wohngeld_m_wthh"], c["wohngeld_anspruchshöhe_m_wthh"]
    if has("kinderzuschl_m_bg", "_kinderzuschl_nach_vermög_check_m_bg", "_kinderzuschl_vor_vermög_check_m_bg"):
        yield "kiz_after<=after_wealth_check", c["kinderzuschl_m_bg"], c["_kinderzuschl_nach_vermög_check_m_bg"]
        yield "kiz_after_wealth<=before_wealth", c["_kinderzuschl_nach_vermög_check_m_bg"], c["_kinderzuschl_vor_vermög_check_m_bg"]
    if has("ges_rentenv_beitr_arbeitnehmer_m", "_ges_rentenv_beitr_bemess_grenze_m"):
        ceil_rv = c["_ges_rentenv_beitr_bemess_grenze_m"].to_numpy()
        # beitr_satz.ges_rentenv / arbeitsl_v are documented as the *employee's* contribution rates
        yield "rentenv<=employee_rate*ceiling", c["ges_rentenv_beitr_arbeitnehmer_m"], sv["beitr_satz"]["ges_rentenv"] * ceil_rv
        if has("arbeitsl_v_beitr_arbeitnehmer_m"):
            yield "arbeitsl_v<=employee_rate*ceiling", c["arbeitsl_v_beitr_arbeitnehmer_m"], sv["beitr_satz"]["arbeitsl_v"] * ceil_rv
    if has("ges_krankenv_beitr_arbeitnehmer_m", "_ges_krankenv_beitr_bemess_grenze_m"):
        # health / long-term care: a person pays at most the *full* statutory rate (employee +
        # employer share, incl. average additional contribution resp. the surcharge for the
        # childless) on wage or self-employment income up to the ceiling, and once more on pension
        # income up to the ceiling.  Rates from the named parameters (the person's own employee
        # rate may be lower: discounts for children since 2023-07).
        ceil_kv = c["_ges_krankenv_beitr_bemess_grenze_m"].to_numpy()
        kv = sv["beitr_satz"]["ges_krankenv"]
        kv_full = max(float(v) for k, v in kv.items() if k in ("allgemein", "mean_allgemein", "ermäßigt")) + sum(
            float(v) for k, v in kv.items() if k in ("mean_zusatzbeitrag", "sonderbeitrag", "zusatz"))
        yield "krankenv<=2*full_rate*ceiling", c["ges_krankenv_beitr_arbeitnehmer_m"], 2.0 * kv_full * ceil_kv
        if has("ges_krankenv_beitr_rentner_m"):
            yield "krankenv_wage_part<=full_rate*ceiling", c["ges_krankenv_beitr_arbeitnehmer_m"].to_numpy() - c["ges_krankenv_beitr_rentner_m"].to_numpy(), kv_full * ceil_kv
        if has("ges_pflegev_beitr_arbeitnehmer_m"):
            pv = sv["beitr_satz"]["ges_pflegev"]
            pv_full = 2.0 * float(pv["standard"]) + float(pv.get("zusatz_kinderlos", 0.0))
            yield "pflegev<=2*full_rate*ceiling", c["ges_pflegev_beitr_arbeitnehmer_m"], 2.0 * pv_full * ceil_kv
    for lvl in ("wthh", "bg"):
        if has(f"wohngeld_anspruchshöhe_m_{lvl}", f"wohngeld_miete_m_{lvl}", f"anz_personen_{lvl}"):
            # more than 12 persons: formula value plus a lump sum per further person, "still capped at" the
            # rent considered (§ 19 Abs. 3 WoGG; the limit 12 is the parameter max_anz_personen_normale_berechnung)
            big = params["wohngeld"].get("bonus_sehr_große_haushalte")
            if isinstance(big, dict) and "max_anz_personen_normale_berechnung" in big:
                many = c[f"anz_personen_{lvl}"].to_numpy() > int(big["max_anz_personen_normale_berechnung"])
                yield (f"wohngeld_large_household<=rent_considered({lvl})", np.where(many, c[f"wohngeld_anspruchshöhe_m_{lvl}"].to_numpy(), 0.0),
                       np.where(many, c[f"wohngeld_miete_m_{lvl}"].to_numpy() + 1.0, 0.0))
    if has("_arbeitsl_geld_2_alleinerz_mehrbedarf_m"):
        # "max gibt den Maximalanteil fuer den Mehrbedarf fuer Alleinerziehende" (share of the standard rate)
        yield "alleinerz_mehrbedarf<=max_share", c["_arbeitsl_geld_2_alleinerz_mehrbedarf_m"], float(params["arbeitsl_geld_2"]["mehrbedarf_anteil"]["max"])
    if has("eink_st_altersfreib_y"):
        am = params["eink_st_abzuege"].get("altersentlastungsbetrag_max")
        if am is not None:
            yield "altersentlastungsbetrag<=max", c["eink_st_altersfreib_y"], (max(am.values()) if isinstance(am, dict) else float(am))
    if has("elterngeld_m", "elterngeld_geschwisterbonus_m", "elterngeld_mehrlingsbonus_m", "_elterngeld_anz_mehrlinge_fg"):
        eg = params["elterngeld"]
        # caps on the bonuses themselves, from named parameters: the sibling bonus is 10 % of an
        # amount that is at most faktor * max. considered income (the replacement rate exceeds
        # `faktor` only for net incomes below 1000 EUR) and at least the statutory minimum bonus
        sib_cap = max(eg["geschwisterbonus_minimum"],
                      eg["geschwisterbonus_aufschlag"] * max(eg["faktor"] * eg["max_zu_berücksichtigendes_einkommen"], eg["höchstbetrag"]))
        yield "geschwisterbonus<=10%_of_max_base", c["elterngeld_geschwisterbonus_m"], sib_cap
        yield "mehrlingsbonus<=bonus*multiples", c["elterngeld_mehrlingsbonus_m"], eg["mehrlingbonus"] * np.maximum(c["_elterngeld_anz_mehrlinge_fg"].to_numpy(), 0)
    if has("kindergeld_m", "kindergeld_anz_ansprüche"):
        kg = params["kindergeld"]["kindergeld"]
        top = max(kg.values()) if isinstance(kg, dict) else float(kg)
        yield "kindergeld<=top_rate*children", c["kindergeld_m"], top * c["kindergeld_anz_ansprüche"].to_numpy()
    if has("eink_st_y_sn", "_zu_verst_eink_ohne_kinderfreib_y_sn"):
        top = float(params["eink_st"]["eink_st_tarif"]["rates"][0][-1])
        yield "eink_st<=top_rate*taxable_income", c["eink_st_y_sn"], top * np.maximum(c["_zu_verst_eink_ohne_kinderfreib_y_sn"].to_numpy(), 0.0)
    if has("soli_st_y_sn", "eink_st_mit_kinderfreib_y_sn", "abgelt_st_y_sn"):
        srate = float(params["soli_st"]["soli_st"]["rates"][0, -1])
        yield "soli<=rate*(tax+abgelt)+0.01", c["soli_st_y_sn"], srate * (c["eink_st_mit_kinderfreib_y_sn"].to_numpy() + c["abgelt_st_y_sn"].to_numpy()) + 0.01
    if has("abgelt_st_y_sn", "kapitaleink_brutto_y_sn"):
        yield "abgelt<=rate*capital_income", c["abgelt_st_y_sn"], params["abgelt_st"]["satz"] * np.maximum(c["kapitaleink_brutto_y_sn"].to_numpy(), 0.0)
    if has("unterhaltsvors_m"):
        # highest amount in force: mindestunterhalt of the oldest group minus nothing
        mu = params["unterhalt"].get("mindestunterhalt")
        if isinstance(mu, dict):
            vals = [v["betrag"] for v in mu.values() if isinstance(v, dict) and "betrag" in v]
            yield "unterhaltsvors<=highest_mindestunterhalt", c["unterhaltsvors_m"], max(vals)


def check(df, date, stats=None):
    nodes = env.all_nodes(date)
    params, _ = env.policy_env(date)
    try:
        with np.errstate(all="ignore"):
            res = env.simulate(df, date, targets=nodes)
    except (ZeroDivisionError, FloatingPointError, OverflowError) as e:
        import traceback

        tb = [f for f in traceback.extract_tb(e.__traceback__) if "/_gettsim/" in f.filename]
        where = tb[-1].name if tb else "?"
        return [core.Failure(f"arithmetic:{type(e).__name__}:{where}", f"{date}: {type(e).__name__} in {where}: {e}")]
    except Exception as e:  # noqa: BLE001
        # missing keys / columns etc. are the subject of C08 (completeness), not of this property
        if stats is not None:
            stats.append(f"other-exception:{type(e).__name__}")
        return []
    fails = []
    for n in nodes:
        col = res[n]
        if col.dtype.kind == "f":
            v = col.to_numpy()
            if not np.all(np.isfinite(v)):
                i = int(np.flatnonzero(~np.isfinite(v))[0])
                fails.append(core.Failure(f"nonfinite:{n}", f"{date}: {n} = {v[i]} for p_id={int(df['p_id'].iloc[i])}"))
    for t in DEFAULT_TARGETS:
        v = res[t].to_numpy().astype(float)
        if np.any(v < -TOL):
            i = int(np.argmin(v))
            fails.append(core.Failure(f"negative:{t}", f"{date}: default target {t} = {v[i]} < 0 for p_id={int(df['p_id'].iloc[i])}"))
        if stats is not None and np.any(v > 0):
            stats.append(f"target:{t}")
    for label, lhs, rhs in caps(res, df, params, date):
        lhs = np.asarray(lhs, dtype=float)
        rhs = np.broadcast_to(np.asarray(rhs, dtype=float), lhs.shape)
        ok = le(lhs, rhs)
        if not np.all(ok):
            i = int(np.flatnonzero(~ok)[0])
            fails.append(core.Failure(f"cap:{label}", f"{date}: cap {label} violated for p_id={int(df['p_id'].iloc[i])}: {lhs[i]} > {rhs[i]}"))
        if stats is not None and np.any(lhs > 0):
            stats.append(f"cap:{label}")
    if len(fails) > 1:  # report the most upstream non-finite node only
        import networkx as nx

        dag = env.dag_info(date)["dag"]
        bad = {f.key.split(":", 1)[1] for f in fails if f.key.startswith("nonfinite:")}
        fails = [f for f in fails if not (f.key.startswith("nonfinite:")
                                          and nx.ancestors(dag, f.key.split(":", 1)[1]) & bad)]
    return fails


def oracle(pop, date, sh, ctx):
    stats = []
    fails = check(pop.df, date, stats)
    for s in stats:
        if s.startswith("other-exception:"):
            sh.classes[s + "(left to C08)"] += 1
        else:
            sh.nontrivial.add(f"{ctx['iso']}|{s}")
    df = pop.df
    if (df[["bruttolohn_m", "eink_selbst_m", "kapitaleink_brutto_m", "vermögen_bedürft"]].to_numpy() >= 1e5).any():
        sh.classes["has-amount>=1e5"] += 1
    if (df["eink_vermietung_m"] < 0).any():
        sh.classes["has-rental-loss"] += 1
    if (df[["bruttolohn_m", "eink_selbst_m", "kapitaleink_brutto_m"]].to_numpy() == 0).all():
        sh.classes["all-zero-incomes"] += 1
    if df["hh_id"].value_counts().max() >= 7:
        sh.classes["household>=7-persons"] += 1
    if df["alter"].max() >= 90:
        sh.classes["age>=90"] += 1
    sh.sample({"date": str(date), "population": popgen.brief(df)}, limit=2)
    for f in fails:
        if f.key not in ctx["known"]:
            small = popgen.minimize_df(df, lambda d, k=f.key: any(g.key == k for g in check(d, date)))
            f.case = popcheck.payload(small, date)
    return fails


def large_family_shard(desc):
    """Households of 11-16 persons along a grid of low wages, with cheap to ordinary rents: the rules for
    very large households (lump sums per further person, tables that end at five or twelve persons) are
    otherwise reached with incomes and rents that make their caps irrelevant."""
    import datetime

    from hypothesis import strategies as st

    from .. import dates as D
    from . import c17

    sh = core.Shard()
    known = core.load_known(PROP)
    date = datetime.date.fromisoformat(desc["date"])

    @st.composite
    def cases(draw):
        pop = draw(popgen.populations(date, mode="mid", max_households=1, max_children=14, archetypes=["couple_kids", "couple_kids", "single_parent", "three_gen"],
                                      shuffle=False).filter(lambda p: len(p.df) >= 11))
        adults = np.flatnonzero((pop.df["alter"] >= 18).to_numpy())
        who = int(draw(st.sampled_from(list(adults))))
        rent = draw(st.sampled_from([300.0, 500.0, 700.0, 900.0, 1200.0, 1800.0]))
        top = draw(st.sampled_from([2500.0, 4000.0, 6000.0]))
        return pop, who, top, rent

    def oracle(case):
        pop, who, top, rent = case
        sweep, grid, n = c17.build_sweep(pop.df, who, top, 12, True, 0.0, rent)
        stats = []
        fails = check(sweep, date, stats)
        for s_ in stats:
            if not s_.startswith("other-exception:"):
                sh.nontrivial.add(f"{desc['date']}|large|{s_}")
        sh.classes[f"large-family-sweep:{min(len(pop.df), 16)}-persons"] += 1
        sh.sample({"date": desc["date"], "large_family": True, "persons": int(len(pop.df)), "rent": rent, "wage_grid_top": top}, limit=1)
        for f in fails:
            if f.key not in known:
                f.case = popcheck.payload(sweep, date)
        return fails

    core.explore(cases(), oracle, n=desc["n"], seed=D.sub_seed(desc["seed"], PROP, "large", desc["date"]), shard=sh, known=known, shrink=False)
    return sh


def run(tier, seed, t0):
    from .. import dates as D

    days = [s_[0].isoformat() for s_ in D.pick(D.strata(), 16 if tier == "quick" else 32, seed, PROP, "large")]
    extra = [("vf.checks.c16", "large_family_shard", [{"date": d, "n": 3 if tier == "quick" else 12, "seed": seed} for d in days])]
    return popcheck.run(__name__, tier, seed, t0, extra_descs=extra)


def replay(case):
    df, date = popcheck.unpack(case)
    return check(df, date)
