"""C08 -- every date >= 2015-01-01 yields a complete, computable system.

Domain   : every stratum between change dates from 2015-01-01 to the last parameter entry
           (first / last / interior day) x generated valid populations with the
           branch-seeking amount distribution (DESIGN 2.2).
Oracle   : compute_taxes_and_transfers(DEFAULT_TARGETS) returns; no KeyError /
           IndexError / AttributeError (missing parameter or rounding key), no
           missing-column or missing-function ValueError, no NotImplementedError, no
           cyclic-dependency error; the DAG's leaves are documented input variables or
           `<group>_params` of a loaded group.
Measured : line coverage of the active rules (sys.monitoring) and which
           `<g>_params[...]` reads were executed per stratum.
"""
from __future__ import annotations

import datetime
import time
import traceback

from _gettsim.config import DEFAULT_TARGETS, TYPES_INPUT_VARIABLES

from .. import core, cov, dates, env, popgen

PROP = "C08"
LEVEL = "exploration"
RULE = (
    "cases = (date, population): date is the first/last/interior day of a stratum between "
    "consecutive change dates >= 2015-01-01; population from the valid-population "
    "generator (branch-seeking amounts).  A distinct non-trivial item is a triple "
    "(stratum, rule, parameter path) whose `<g>_params[...]` read was actually executed "
    "by some generated population of that stratum (measured with sys.monitoring)."
)
ASSUMPTIONS = [
    "valid populations are those of DESIGN.md 2.2 (documented inputs, symmetric pointers, ...)",
    "ZeroDivision/Overflow style failures are reported by C16, not here",
    "branch reachability is measured (line coverage), not proved",
]

BAD = (KeyError, IndexError, AttributeError, NotImplementedError)


def classify(exc: BaseException):
    """Root-cause key for an exception of a simulation, or None if C08 does not cover it."""
    name = type(exc).__name__
    msg = str(exc)
    tb = traceback.extract_tb(exc.__traceback__)
    frames = [f for f in tb if "/_gettsim/" in f.filename]
    where = f"{frames[-1].filename.split('/_gettsim/')[-1]}:{frames[-1].name}" if frames else "?"
    stem = msg.strip().split("\n")[0][:60]
    if isinstance(exc, BAD):
        return f"{name}|{stem}|{where}"
    if "Cyclic" in name or "cycle" in msg.lower():
        return f"{name}|cycle|{where}"
    if isinstance(exc, ValueError) and (
        "data columns are missing" in msg or "no corresponding function" in msg
    ):
        return f"{name}|{stem}|{where}"
    if isinstance(exc, TypeError) and ("missing" in msg and "argument" in msg):
        return f"{name}|{stem}|{where}"
    return None


def structural(date):
    """Leaves of the DAG must be documented inputs or parameter groups that exist."""
    fails = []
    try:
        info = env.dag_info(date)
    except Exception as e:  # noqa: BLE001
        key = classify(e) or f"{type(e).__name__}|dag"
        return [core.Failure(f"dag:{key}", f"{date}: building the DAG failed: {e!s:.200}",
                             {"date": str(date), "kind": "structural"})]
    params, _ = env.policy_env(date)
    undocumented = [r for r in info["roots"] if r not in TYPES_INPUT_VARIABLES]
    for r in undocumented:
        fails.append(core.Failure(f"leaf-not-input:{r}",
                                  f"{date}: DAG leaf {r!r} is not a documented input variable",
                                  {"date": str(date), "kind": "structural"}))
    for r in info["param_roots"]:
        if r[: -len("_params")] not in params:
            fails.append(core.Failure(f"param-group-missing:{r}",
                                      f"{date}: rule argument {r!r} names no parameter group",
                                      {"date": str(date), "kind": "structural"}))
    return fails


def oracle_case(df, date, targets=None, rounding=True):
    try:
        env.simulate(df, date, targets=targets, rounding=rounding)
    except Exception as e:  # noqa: BLE001
        key = classify(e)
        if key is None:
            return [], f"{type(e).__name__}"
        return [core.Failure(key, f"{date}: {type(e).__name__}: {str(e).strip()[:160]}", None)], None
    return [], None


def _case_payload(df, date, targets, rounding):
    return {"date": str(date), "targets": targets, "rounding": rounding,
            "data": popgen.df_to_plain(df)}


def shard(desc):
    sh = core.Shard()
    known = core.load_known(PROP)
    tier = desc["tier"]
    cov.start()
    for iso in desc["dates"]:
        date = datetime.date.fromisoformat(iso)
        stratum = desc["stratum_of"][iso]
        for f in structural(date):
            if f.key in known:
                sh.known_seen[f.key] += 1
            else:
                sh.failures.append(f)
        cov.reset()
        other = {}

        def oracle(pop, date=date, iso=iso):
            sh.classes.update(pop.classes())
            sh.classes.update(f"arch:{a}" for a in pop.archetypes)
            variants = [(None, True)]
            if tier == "thorough":
                variants.append((None, False))
                k = dates.sub_seed(desc["seed"], iso, len(pop.df)) % len(DEFAULT_TARGETS)
                variants.append(([DEFAULT_TARGETS[k]], True))
            out = []
            for targets, rounding in variants:
                fails, oth = oracle_case(pop.df, date, targets, rounding)
                if oth:
                    other[oth] = other.get(oth, 0) + 1
                for f in fails:
                    if f.key not in known:
                        small = popgen.minimize_df(
                            pop.df, lambda d: any(
                                g.key == f.key for g in oracle_case(d, date, targets, rounding)[0]))
                        f.case = _case_payload(small, date, targets, rounding)
                    out.append(f)
            sh.sample({"date": iso, "population": popgen.brief(pop.df)}, limit=2)
            return out

        core.explore(popgen.populations(date, mode="branch", max_households=desc["max_hh"], max_children=10),
                     oracle, n=desc["n"], seed=dates.sub_seed(desc["seed"], PROP, iso),
                     shard=sh, known=known, shrink=False)
        for k, v in other.items():
            sh.classes[f"other-exception:{k}"] += v
        # measurement: which parameter reads of active rules were executed
        hit = cov.hits()
        _, functions = env.policy_env(date)
        info = env.dag_info(date)
        active = [n for n in info["computed"] if n in functions]
        n_lines = n_hit = 0
        unreached = []
        for name in active:
            f = functions[name]
            fn, lines = cov.executable_lines(f)
            got = {ln for ln in lines if (fn, ln) in hit}
            n_lines += len(lines)
            n_hit += len(got)
            if lines and len(got) < len(lines):
                unreached.append(f"{name}:{len(lines)-len(got)}/{len(lines)}")
            for path, pfn, lo, hi in cov.param_reads(f):
                if any((pfn, ln) in hit for ln in range(lo, hi + 1)):
                    sh.nontrivial.add(f"{stratum}|{name}|{path}")
        sh.extra.setdefault("line_coverage_by_date", {})[iso] = {
            "rule_lines": n_lines, "hit": n_hit, "rules": len(active),
            "rules_not_fully_covered": unreached[:40]}
    sh.extra["dates"] = list(desc["dates"])
    return sh


def plan(tier, seed):
    strata = dates.strata()
    descs = []
    all_dates = []
    stratum_of = {}
    for s in strata:
        if tier == "thorough":
            days = dates.stratum_days(s)
        else:
            days = dates.stratum_days(s, ("first",))
            extra = dates.stratum_days(s, ("last", "interior"))
            if extra:
                days.append(extra[dates.sub_seed(seed, "pos", s[0]) % len(extra)])
        for d in days:
            all_dates.append(d.isoformat())
            stratum_of[d.isoformat()] = s[0].isoformat()
    n = 40 if tier == "thorough" else 8
    # round-robin dates over shards so every worker sets up a similar number of environments
    nshards = min(core.NPROC * (2 if tier == "thorough" else 1), len(all_dates))
    for i in range(nshards):
        ds = all_dates[i::nshards]
        descs.append({"dates": ds, "n": n, "seed": seed, "tier": tier,
                      "max_hh": 5 if tier == "thorough" else 4,
                      "stratum_of": {d: stratum_of[d] for d in ds}})
    return descs


def run(tier, seed, t0):
    # replay tier: stored counter-examples first
    descs = plan(tier, seed)
    results = core.run_shards("vf.checks.c08", "shard", descs)
    total, errors = core.merge(results)
    lc = total.extra.get("line_coverage_by_date", {})
    if lc:
        tot_lines = sum(v["rule_lines"] for v in lc.values())
        tot_hit = sum(v["hit"] for v in lc.values())
        total.extra["rule_line_coverage_overall"] = round(tot_hit / max(1, tot_lines), 4)
    total.extra["n_dates"] = len(total.extra.get("dates", []))
    return core.finish(PROP, tier=tier, seed=seed, level=LEVEL, rule=RULE,
                       assumptions=ASSUMPTIONS, total=total, errors=errors, t0=t0,
                       min_evaluations=50, min_nontrivial=50)


def replay(case):
    date = datetime.date.fromisoformat(case["date"])
    if case.get("kind") == "structural":
        return structural(date)
    df = popgen.df_from_plain(case["data"])
    fails, _ = oracle_case(df, date, case.get("targets"), case.get("rounding", True))
    return fails
