"""C10 -- statutory rounding is applied exactly once, on the right grid.

The rounding specification (base b, direction, offset o) comes from the *reference* YAML model
(vf.refmodel.yaml_env.rounding_specs), never from the environment under test.
 A  natural values: for every rounded rule of the DAG and every generated population, u = raw scalar
    rule applied to the (rounded-run) parent columns; with v = production - o:  v/b is an integer;
    up: 0 <= v-u < b; down: 0 <= u-v < b; nearest: |v-u| <= b/2; u exactly on the grid => v == u.
    Derived week/day variants of rounded flow rules obey the conversion factors (not rounded again).
 B  injected values: the rule is replaced by a probe `f(zz_u) = zz_u` carrying the same rounding key,
    so u can be put exactly on the grid, half-way between grid points and 1e-9*b around both.
 C  missing specification: removing the rule's spec / its base / its direction from a deep copy of
    params, or a date without spec in the YAML, must raise KeyError (not round silently).
"""
from __future__ import annotations

import copy
import datetime
import math
from fractions import Fraction

import numpy as np
import pandas as pd
from hypothesis import strategies as st

from .. import core, dates, env, popcheck, popgen
from ..refmodel import yaml_env as Y
from .c03 import eval_rows
from .c13 import PER_Y, variants

PROP = "C10"
LEVEL = "exploration"
RULE = (
    "cases: (A) (date stratum >= 2015, population) x every rounded rule of the DAG; (B) (stratum, rounded rule, "
    "vector of injected unrounded values on / half-way between / 1e-9*b around grid points and random); (C) (stratum, "
    "rounded rule, removed key).  Non-trivial = the unrounded value is not on the grid (rounding changed it) or lies "
    "exactly on the grid or exactly half-way (corner classes); distinct = (stratum, rule, class, value digest)."
)
ASSUMPTIONS = [
    "rounding specs (base, direction, to_add_after_rounding) are read from the raw YAML by the reference model",
    "relations are evaluated in exact rational arithmetic on the binary floats with slack 1e-9*max(1,|u|)",
    "u for sub-check A is the raw Python rule evaluated row by row (validated separately by C03)",
]
BUDGET = {"quick": (32, 5), "thorough": (None, 40)}
GEN = dict(mode="branch", max_households=3)


def rounded_rules(date):
    params, functions = env.policy_env(date)
    out = {}
    for n, f in functions.items():
        g = getattr(f, "__info__", {}).get("params_key_for_rounding")
        if g is not None:
            specs = Y.rounding_specs(g, date)
            out[n] = (g, None if specs is Y.ABSENT else specs.get(n))
    return out


def relation(u, prod, spec):
    """None if (u -> prod) obeys the spec, else a description.  Also returns the class of u."""
    b = Fraction(spec["base"])
    o = Fraction(spec.get("to_add_after_rounding", 0))
    U = Fraction(float(u))
    V = Fraction(float(prod)) - o
    tol = Fraction(1, 10**9) * max(1, abs(U))
    q = V / b
    near = round(q)
    cls = "off-grid"
    qu = U / b
    if qu.denominator == 1:
        cls = "on-grid"
    elif (2 * qu).denominator == 1:
        cls = "half-way"
    if abs(q - near) * b > tol:
        return f"result {float(V)} is not a multiple of the base {float(b)}", cls
    diff = V - U
    d = spec["direction"]
    if cls == "on-grid" and abs(diff) > tol:
        return f"value {float(U)} is already on the grid but was moved to {float(V)}", cls
    if d == "up" and not (-tol <= diff < b + tol):
        return f"rounded up from {float(U)} to {float(V)} (step {float(b)})", cls
    if d == "down" and not (-tol <= -diff < b + tol):
        return f"rounded down from {float(U)} to {float(V)} (step {float(b)})", cls
    if d == "nearest" and not (abs(diff) <= b / 2 + tol):
        return f"rounded to nearest from {float(U)} to {float(V)} (step {float(b)})", cls
    return None, cls


# ------------------------------------------------------------------------------------- A


def check_natural(df, date, stats=None):
    params, functions = env.policy_env(date)
    rr = rounded_rules(date)
    nodes = env.all_nodes(date)
    in_dag = [n for n in rr if n in nodes and rr[n][1] is not None]
    extra = []
    for n in rr:
        if n in in_dag or rr[n][1] is None:
            continue
        vv = variants(n)
        extra.append(n)
    targets = list(nodes)
    res = env.simulate(df, date, targets=targets, rounding=True)
    for n in extra:  # rounded rules outside the default DAG, if computable from our inputs
        try:
            r1 = env.simulate(df, date, targets=[n, *[a for a in _parents(functions[n]) if a not in df.columns]], rounding=True)
            for c in r1.columns:
                if c not in res.columns:
                    res[c] = r1[c].to_numpy()
            in_dag.append(n)
        except Exception:  # noqa: BLE001
            if stats is not None:
                stats.setdefault("not_computable", set()).add(n)
    columns = {c: df[c].to_numpy() for c in df.columns}
    for c in res.columns:
        columns[c] = res[c].to_numpy()
    fails = []
    for n in in_dag:
        g, spec = rr[n]
        f = functions[n]
        try:
            us = eval_rows(f, params, columns, len(df))
        except Exception as e:  # noqa: BLE001
            fails.append(core.Failure(f"scalar-raises:{n}", f"{date}: raw rule {n} raised {type(e).__name__}"))
            continue
        prod = columns[n]
        for i, (u, v) in enumerate(zip(us, prod.tolist())):
            if isinstance(u, float) and (math.isnan(u) or math.isinf(u)):
                continue
            msg, cls = relation(u, v, spec)
            if stats is not None:
                stats.setdefault("items", set()).add(f"{n}|{cls}|{float(u)!r}")
            if msg:
                fails.append(core.Failure(f"rounding:{n}", f"{date}: {n} (spec {spec}) for p_id={int(df['p_id'].iloc[i])}: {msg}"))
                break
    # derived week / day variants of rounded flow rules are not rounded again
    want = {}
    for n in in_dag:
        vv = variants(n)
        if vv and env.group_of(n) is None:
            v, u = vv
            names = [v[x] for x in "wd" if x != u and v[x] not in functions and v[x] not in df.columns]
            if names:
                want[n] = (u, {x: v[x] for x in "wd" if v[x] in names})
    if want:
        try:
            r2 = env.simulate(df, date, targets=sorted({x for _, (_, m) in want.items() for x in m.values()} | set(want)), rounding=True)
        except Exception as e:  # noqa: BLE001
            r2 = None
            fails.append(core.Failure(f"derived-variant-raises:{type(e).__name__}",
                                      f"{date}: requesting the week/day variants of the rounded rules {sorted(want)[:4]}... raises {type(e).__name__}: {e!s:.160}"))
        if r2 is not None:
            for n, (u, m) in want.items():
                base = r2[n].to_numpy().astype(float) * PER_Y[u]
                for x, name in m.items():
                    got = r2[name].to_numpy().astype(float) * PER_Y[x]
                    if not np.all(np.abs(got - base) <= 1e-12 * np.maximum(1.0, np.abs(base))):
                        i = int(np.argmax(np.abs(got - base)))
                        fails.append(core.Failure(f"derived-rounded-again:{name}", f"{date}: {name}*{PER_Y[x]} = {got[i]} but {n}*{PER_Y[u]} = {base[i]}: the derived column is not an exact conversion of the rounded one"))
    return fails


def _parents(f):
    import inspect

    return [a for a in inspect.signature(f).parameters if not a.endswith("_params")]


def oracle(pop, date, sh, ctx):
    stats = {}
    fails = check_natural(pop.df, date, stats)
    for it in stats.get("items", ()):
        sh.nontrivial.add(f"{ctx['iso']}|A|{it}")
    for n in stats.get("not_computable", ()):
        sh.classes[f"A-not-computable:{n}"] += 1
    sh.sample({"date": str(date), "sub_check": "A", "population": popgen.brief(pop.df, max_rows=4)}, limit=1)
    for f in fails:
        if f.key not in ctx["known"]:
            f.case = popcheck.payload(pop.df, date, kind="A")
    return fails


# ------------------------------------------------------------------------------------- B


def make_probe(group):
    def probe(zz_u: float) -> float:
        return zz_u

    probe.__info__ = {"params_key_for_rounding": group, "skip_vectorization": False}
    return probe


def probe_values(spec, ks, fracs):
    b = float(spec["base"])
    vals = []
    for k in ks:
        g = k * b
        vals += [g, g + 0.5 * b, g + 1e-9 * b, g - 1e-9 * b, g + 0.5 * b + 1e-9 * b, g + 0.5 * b - 1e-9 * b]
    for k, fr in zip(ks, fracs):
        vals.append((k + fr) * b)
    return vals


def check_injected(date, rule, values):
    params, functions = env.policy_env(date)
    g, spec = rounded_rules(date)[rule]
    n = len(values)
    data = pd.DataFrame({"p_id": np.arange(n), "hh_id": np.arange(n), "zz_u": np.asarray(values, dtype=float)})
    res = env.simulate(data, env=(params, [functions, {rule: make_probe(g)}]), targets=[rule], rounding=True)
    res_off = env.simulate(data, env=(params, [functions, {rule: make_probe(g)}]), targets=[rule], rounding=False)
    fails = []
    classes = []
    if not np.array_equal(res_off[rule].to_numpy(), data["zz_u"].to_numpy()):
        fails.append(core.Failure(f"rounding-off-changes:{rule}", f"{date}: with rounding=False {rule} differs from its unrounded value"))
    for u, v in zip(values, res[rule].tolist()):
        msg, cls = relation(u, v, spec)
        classes.append(cls)
        if msg:
            fails.append(core.Failure(f"rounding:{rule}", f"{date}: {rule} (spec {spec}) injected value {u!r}: {msg}"))
            break
    return fails, classes


# ------------------------------------------------------------------------------------- C


def check_missing(date, rule):
    params, functions = env.policy_env(date)
    g, spec = rounded_rules(date)[rule]
    data = pd.DataFrame({"p_id": [0, 1], "hh_id": [0, 1], "zz_u": [1.234, 5.678]})
    fns = [functions, {rule: make_probe(g)}]
    fails = []
    variants_ = []
    if spec is None:
        variants_.append(("no-spec-at-date", params))
    else:
        for what in ("spec", "base", "direction"):
            p2 = copy.deepcopy(params)
            if what == "spec":
                del p2[g]["rounding"][rule]
            else:
                del p2[g]["rounding"][rule][what]
            variants_.append((f"removed-{what}", p2))
    for label, p2 in variants_:
        try:
            env.simulate(data, env=(p2, fns), targets=[rule], rounding=True)
        except KeyError:
            continue
        except Exception as e:  # noqa: BLE001
            fails.append(core.Failure(f"missing-spec-wrong-error:{rule}", f"{date}: {rule} with {label}: raised {type(e).__name__} instead of KeyError: {e!s:.100}"))
            continue
        fails.append(core.Failure(f"missing-spec-silent:{rule}", f"{date}: {rule} is marked for rounding but with {label} the simulation ran without error"))
    return fails, [v[0] for v in variants_]


def bc_shard(desc):
    sh = core.Shard()
    known = core.load_known(PROP)
    for iso in desc["dates"]:
        date = datetime.date.fromisoformat(iso)
        rr = rounded_rules(date)
        for rule, (g, spec) in sorted(rr.items()):
            # C
            fails, labels = check_missing(date, rule)
            sh.evaluations += len(labels)
            for lb in labels:
                sh.nontrivial.add(f"{iso}|C|{rule}|{lb}")
            for f in fails:
                if f.key in known:
                    sh.known_seen[f.key] += 1
                elif not any(x.key == f.key for x in sh.failures):
                    f.case = {"date": iso, "kind": "C", "rule": rule}
                    sh.failures.append(f)
            if spec is None:
                continue
            # B
            strat = st.tuples(st.lists(st.one_of(st.integers(0, 2000), st.integers(0, 10**7), st.integers(-50, 0)), min_size=4, max_size=12),
                              st.lists(st.floats(0.0, 1.0, exclude_max=True), min_size=12, max_size=12))

            def oracle(t, rule=rule, spec=spec, date=date, iso=iso):
                ks, fracs = t
                vals = probe_values(spec, ks, fracs)
                fails, classes = check_injected(date, rule, vals)
                for u, c in zip(vals, classes):
                    sh.nontrivial.add(f"{iso}|B|{rule}|{c}|{u!r}")
                    sh.classes[f"B-{c}"] += 1
                sh.sample({"date": iso, "sub_check": "B", "rule": rule, "spec": spec, "injected": vals[:8]}, limit=2)
                for f in fails:
                    if f.key not in known:
                        f.case = {"date": iso, "kind": "B", "rule": rule, "values": vals}
                return fails

            core.explore(strat, oracle, n=desc["n"], seed=dates.sub_seed(desc["seed"], PROP, iso, rule), shard=sh,
                         known=known, shrink=False)
    return sh


def spec_versions():
    """Every (group, rule, date key) of every `rounding:` block of the raw parameter files."""
    from _gettsim.config import INTERNAL_PARAMS_GROUPS

    out = []
    for g in INTERNAL_PARAMS_GROUPS:
        r = dates.raw_yaml(g).get("rounding") or {}
        for fn, spec in r.items():
            for k in spec:
                if isinstance(k, datetime.date) and k >= datetime.date(1980, 1, 1):
                    out.append((g, fn, k.isoformat()))
    return out


def versions_shard(desc):
    """Sub-check B for *every* rounding specification version in the YAML files (all dates since
    1980, i.e. also the 2001-2003 offsets), on the date it enters into force."""
    sh = core.Shard()
    known = core.load_known(PROP)
    for g, rule, iso in desc["items"]:
        date = datetime.date.fromisoformat(iso)
        specs = Y.rounding_specs(g, date)
        spec = specs.get(rule)
        if spec is None or spec.get("base") is None:
            continue
        rng = np.random.RandomState(dates.sub_seed(desc["seed"], PROP, "ver", g, rule, iso) % 2**31)
        ks = [0, 1, 2, 7, int(rng.randint(3, 5000)), int(rng.randint(5000, 10**6)), -3]
        vals = probe_values(spec, ks, rng.rand(len(ks)).tolist())
        params, functions = env.policy_env(date)
        n = len(vals)
        data = pd.DataFrame({"p_id": np.arange(n), "hh_id": np.arange(n), "zz_u": np.asarray(vals, dtype=float)})
        try:
            # two calls with one private params object: the statutory rounding of the second call must be
            # the same (a spec consumed or altered by the first call would show here)
            pp = copy.deepcopy(params)
            res = env.simulate(data, env=(pp, [functions, {rule: make_probe(g)}]), targets=[rule], rounding=True)
            res_again = env.simulate(data, env=(pp, [functions, {rule: make_probe(g)}]), targets=[rule], rounding=True)
        except Exception as e:  # noqa: BLE001
            key = f"spec-version-raises:{rule}"
            if key in known:
                sh.known_seen[key] += 1
            elif not any(f.key == key for f in sh.failures):
                sh.failures.append(core.Failure(key, f"{iso}: rounding {rule} with the spec of {iso} ({spec}) raises {type(e).__name__}: {e!s:.120}",
                                                {"date": iso, "kind": "V", "group": g, "rule": rule, "values": vals}))
            continue
        sh.evaluations += 1
        for u, v, call in [(u_, v_, 1) for u_, v_ in zip(vals, res[rule].tolist())] + [(u_, v_, 2) for u_, v_ in zip(vals, res_again[rule].tolist())]:
            msg, cls = relation(u, v, spec)
            sh.nontrivial.add(f"{iso}|V|{rule}|{cls}|{u!r}")
            if msg and call == 2:
                msg += " (second call with the same params object)"
            if msg:
                key = f"rounding:{rule}"
                if key in known:
                    sh.known_seen[key] += 1
                elif not any(f.key == key for f in sh.failures):
                    sh.failures.append(core.Failure(key, f"{iso}: {rule} (spec {spec} from the YAML) injected value {u!r}: {msg}",
                                                    {"date": iso, "kind": "V", "group": g, "rule": rule, "values": vals}))
                break
        if "to_add_after_rounding" in spec:
            sh.classes["V-spec-with-offset"] += 1
        sh.classes["V-spec-versions"] += 1
    return sh


def run(tier, seed, t0):
    ds = [d.isoformat() for d in popcheck.plan_dates(tier, seed, PROP + "bc", 16 if tier == "quick" else None)]
    n = core.NPROC
    extra = [("vf.checks.c10", "bc_shard", [{"dates": ds[i::n], "seed": seed, "n": 4 if tier == "quick" else 40}
                                            for i in range(n) if ds[i::n]])]
    vers = sorted(spec_versions(), key=lambda t: t[2])
    extra.append(("vf.checks.c10", "versions_shard", [{"items": vers[i::n], "seed": seed} for i in range(n) if vers[i::n]]))
    return popcheck.run(__name__, tier, seed, t0, extra_descs=extra)


def replay(case):
    kind = case.get("kind", "A")
    date = datetime.date.fromisoformat(case["date"])
    if kind == "A":
        df, date = popcheck.unpack(case)
        return check_natural(df, date)
    if kind == "B":
        return check_injected(date, case["rule"], case["values"])[0]
    if kind == "V":
        sh = versions_shard({"items": [(case["group"], case["rule"], case["date"])], "seed": 1})
        return sh.failures
    return check_missing(date, case["rule"])[0]
