"""C01 -- results do not depend on row order or index labels.

Oracle (metamorphic): simulate(pi(P)) re-aligned on p_id == simulate(P) on *all* nodes of
the DAG of the default targets (ids as partitions, dtype kind included), for a drawn
permutation pi and index labelling.
"""
from __future__ import annotations

import itertools

import networkx as nx
import numpy as np
from hypothesis import strategies as st

from .. import compare, core, env, popcheck, popgen

PROP = "C01"
LEVEL = "exploration"
RULE = (
    "case = (date stratum >= 2015 or one of the sampled strata of 2005-2014 with the screened node universe, valid population P, permutation pi, index labelling, debug flag, lossless dtype variant); "
    "both orders are simulated for all ~320 DAG nodes and compared on p_id.  Non-trivial = pi "
    "changes the first row or flips the relative order of two persons linked by a "
    "partner/parent/child-benefit pointer; distinct = digest of (P, pi)."
)
ASSUMPTIONS = [
    "valid populations per DESIGN.md 2.2",
    "float columns compared with 1e-9 relative tolerance (order of additions in group sums), everything else exactly",
    "derived group ids compared as partitions",
]
BUDGET = {"quick": (32, 10), "thorough": (None, 60)}
EARLY = 6  # additional strata from 2005-2014 in the quick tier (all of them in the thorough tier)
GEN = dict(mode="branch", max_households=4)


def _topo(date):
    info = env.dag_info(date)
    order = list(nx.topological_sort(info["dag"]))
    comp = set(info["computed"])
    return [n for n in order if n in comp]


def strategy(date, ctx):
    @st.composite
    def s(draw):
        pop = draw(popgen.populations(date, **GEN))
        n = len(pop.df)
        kind = draw(st.sampled_from(["perm", "perm", "reverse", "children_first", "rotate"]))
        if kind == "perm":
            perm = list(draw(st.permutations(list(range(n)))))
        elif kind == "reverse":
            perm = list(range(n))[::-1]
        elif kind == "children_first":
            perm = list(np.argsort(pop.df["alter"].to_numpy(), kind="stable"))
        else:
            k = draw(st.integers(0, max(0, n - 1)))
            perm = list(range(k, n)) + list(range(k))
        label = draw(st.sampled_from(["range", "shuffled", "strings", "sparse"]))
        lab_seed = draw(st.integers(0, 10**6))
        # the permuted table is, in half of the cases, simulated with debug=True and / or with some
        # int columns stored as float64 and bool columns as int64 (lossless, officially converted):
        # where a row sits must not matter under these options either
        opts = {"debug": draw(st.booleans()), "types": draw(st.one_of(st.none(), st.integers(0, 10**6)))}
        return pop, [int(i) for i in perm], label, lab_seed, opts

    return s()


def apply(df, perm, label, lab_seed):
    out = df.iloc[perm].copy()
    n = len(out)
    rng = np.random.RandomState(lab_seed)
    if label == "range":
        out = out.reset_index(drop=True)
    elif label == "shuffled":
        out.index = rng.permutation(n)
    elif label == "strings":
        out.index = [f"row{int(v)}" for v in rng.permutation(n)]
    else:
        out.index = np.sort(rng.choice(10**6, size=n, replace=False))[rng.permutation(n)]
    return out


def nontrivial(df, perm):
    if list(perm) == list(range(len(perm))):
        return False
    if perm[0] != 0:
        return True
    newpos = {old: new for new, old in enumerate(perm)}
    pid = df["p_id"].tolist()
    pos = {p: i for i, p in enumerate(pid)}
    for c in popgen.POINTER_COLS:
        for i, v in enumerate(df[c].tolist()):
            if v >= 0:
                j = pos[v]
                if (i < j) != (newpos[i] < newpos[j]):
                    return True
    return False


def retype(df, seed):
    """Some int columns as float64, some bool columns as int64 (values unchanged)."""
    from _gettsim.config import TYPES_INPUT_VARIABLES

    out = df.copy()
    rng = np.random.RandomState(seed)
    for c, t in TYPES_INPUT_VARIABLES.items():
        if c in out.columns and rng.randint(0, 3) == 0:
            if t is int:
                out[c] = out[c].astype("float64")
            elif t is bool:
                out[c] = out[c].astype("int64")
    return out


def co_resident_non_partner_parents(df):
    """Is there a child whose two parents both live in its household and are not each other's partner?"""
    pos = {int(p): i for i, p in enumerate(df["p_id"].tolist())}
    hh = df["hh_id"].tolist()
    einst = df["p_id_einstandspartner"].tolist()
    for i, (a, b) in enumerate(zip(df["p_id_elternteil_1"].tolist(), df["p_id_elternteil_2"].tolist())):
        if a >= 0 and b >= 0 and a in pos and b in pos:
            ia, ib = pos[int(a)], pos[int(b)]
            if hh[ia] == hh[i] == hh[ib] and einst[ia] != b:
                return True
    return False


def check(df, date, perm, label, lab_seed, opts=None):
    opts = opts or {}
    debug = bool(opts.get("debug"))
    nodes = _topo(date)
    base = env.simulate(df, date, targets=nodes)
    df2 = apply(df, perm, label, lab_seed)
    if opts.get("types") is not None:
        df2 = retype(df2, opts["types"])
    try:
        other = env.simulate(df2, date, targets=nodes, debug=debug)
    except Exception as e:  # noqa: BLE001
        return [core.Failure(f"raises:{type(e).__name__}", f"{date}: the permuted / relabelled table (index {label}, options {opts}) "
                             f"raises {type(e).__name__}: {e!s:.160} although the original order is simulated")]
    fails = []
    key_other = df2["p_id"].to_numpy()
    if debug:
        # the debug table shows the inputs next to the results: the p_id *shown* in a row identifies it
        if len(other) != len(df2) or not set(nodes) <= set(other.columns) or "p_id" not in other.columns:
            return [core.Failure("shape", f"{date}: debug result has {len(other)} rows for {len(df2)} input rows / lacks columns")]
        if not np.array_equal(other["p_id"].to_numpy(), key_other):
            return [core.Failure("debug-row-order", f"{date}: with debug=True and index labels {label!r} the p_id column of the result "
                                 f"is {other['p_id'].tolist()[:8]}, the input has {key_other.tolist()[:8]}")]
        other = other[list(base.columns)]
    if len(other) != len(df2) or list(other.columns) != list(base.columns):
        fails.append(core.Failure("shape", f"{date}: result shape/columns differ after permutation"))
        return fails
    diffs = compare.compare_frames(base, other, key_base=df["p_id"].to_numpy(),
                                   key_other=key_other, columns=nodes)
    if diffs:
        first = diffs[0]  # nodes are in topological order: the most upstream difference
        d = dict(first)
        if d["column"] == "fg_id" and co_resident_non_partner_parents(df):
            d["column"] = "fg_id|child-of-two-co-resident-parents-who-are-not-partners"
        fails.append(core.Failure(f"{d['kind']}:{d['column']}",
                                  f"{date}: {d['column']} differs after row permutation ({d})"
                                  f"; {len(diffs)} node(s) differ in total"))
    return fails


def oracle(pop_perm, date, sh, ctx):
    pop, perm, label, lab_seed, opts = pop_perm
    df = pop.df
    fails = check(df, date, perm, label, lab_seed, opts)
    sh.classes[f"debug={opts['debug']}"] += 1
    sh.classes["retyped-columns" if opts["types"] is not None else "documented-dtypes"] += 1
    if nontrivial(df, perm):
        sh.nontrivial.add(core.digest([popgen.df_to_plain(df[["p_id", "hh_id", "alter", "bruttolohn_m"]]), perm]))
        sh.classes["nontrivial"] += 1
    sh.classes[f"label:{label}"] += 1
    sh.sample({"date": str(date), "perm": perm, "index_label": label,
               "population": popgen.brief(df)}, limit=2)
    for f in fails:
        if f.key not in ctx["known"]:
            f.case = popcheck.payload(df, date, perm=perm, label=label, lab_seed=lab_seed, opts=opts)
    return fails


def shard_wrapper_strategy(date, ctx):  # pragma: no cover - kept for symmetry
    return strategy(date, ctx)


# popcheck passes the drawn value straight to oracle(); classes() are taken from a Population,
# so wrap: the drawn tuple needs .classes()/.archetypes for the generic driver.
class _Case(tuple):
    def classes(self):
        return self[0].classes()

    @property
    def archetypes(self):
        return self[0].archetypes


_orig_strategy = strategy


def strategy(date, ctx):  # noqa: F811
    return _orig_strategy(date, ctx).map(_Case)


# ---- exhaustive block: all row orders of small pointer shapes -------------------------

SHAPES = [
    # (alter, hh, e1, e2, ehe, einst) per person, local indices
    [(40, 0, -1, -1, 1, 1), (38, 0, -1, -1, 0, 0), (10, 0, 0, -1, -1, -1)],  # step child of partner 0
    [(40, 0, -1, -1, -1, 1), (38, 0, -1, -1, -1, 0), (10, 0, 1, -1, -1, -1), (3, 0, 0, 1, -1, -1)],
    [(50, 0, -1, -1, 1, 1), (48, 0, -1, -1, 0, 0), (20, 0, 0, 1, 3, 3), (22, 0, -1, -1, 2, 2)],
    [(45, 0, -1, -1, -1, -1), (19, 0, 0, -1, -1, -1), (1, 0, 1, -1, -1, -1)],
    [(70, 0, -1, -1, -1, -1), (40, 0, 0, -1, -1, -1), (12, 0, 1, -1, -1, -1), (30, 1, -1, -1, -1, -1)],
    [(35, 0, -1, -1, -1, -1), (8, 0, 0, 2, -1, -1), (37, 1, -1, -1, -1, -1), (6, 0, 0, 2, -1, -1)],
    [(30, 0, -1, -1, 1, -1), (31, 1, -1, -1, 0, -1), (5, 0, 0, 1, -1, -1)],
    [(66, 0, -1, -1, 1, 1), (67, 0, -1, -1, 0, 0)],
    [(24, 0, -1, -1, -1, -1), (25, 0, -1, -1, -1, -1), (26, 0, -1, -1, -1, -1)],
    [(45, 0, -1, -1, 1, 1), (44, 0, -1, -1, 0, 0), (24, 0, 0, 1, -1, -1), (17, 0, 0, 1, -1, -1)],
    [(33, 0, -1, -1, -1, 1), (29, 0, -1, -1, -1, 0), (4, 0, 1, -1, -1, -1), (2, 0, 1, -1, -1, -1)],
    [(41, 0, -1, -1, -1, -1)],
]


def shape_df(shape, date, variant=0):
    import pandas as pd
    from _gettsim.config import TYPES_INPUT_VARIABLES

    n = len(shape)
    pid = [7 * i + 3 for i in range(n)]
    cols = {}
    for c, t in TYPES_INPUT_VARIABLES.items():
        cols[c] = [False] * n if t is bool else ([0] * n if t is int else [0.0] * n)
    for i, (alter, hh, e1, e2, ehe, einst) in enumerate(shape):
        ref = lambda j: -1 if j < 0 else pid[j]  # noqa: E731
        cols["p_id"][i] = pid[i]
        cols["hh_id"][i] = 11 + hh
        cols["alter"][i] = alter
        cols["geburtsjahr"][i] = date.year - alter
        cols["geburtsmonat"][i] = 1
        cols["geburtstag"][i] = 1
        cols["p_id_elternteil_1"][i] = ref(e1)
        cols["p_id_elternteil_2"][i] = ref(e2)
        cols["p_id_ehepartner"][i] = ref(ehe)
        cols["p_id_einstandspartner"][i] = ref(einst)
        kg = e1 if alter < 25 else -1
        cols["p_id_kindergeld_empf"][i] = ref(kg)
        cols["p_id_erziehgeld_empf"][i] = -1
        cols["p_id_betreuungsk_träger"][i] = ref(kg) if alter < 14 else -1
        partnered = ehe >= 0 or einst >= 0
        has_kids = any(s[2] == i or s[3] == i for s in shape)
        cols["kind"][i] = alter < 18 and e1 >= 0 and shape[e1][1] == hh and not has_kids
        cols["in_ausbildung"][i] = 6 <= alter < 18
        cols["gemeinsam_veranlagt"][i] = ehe >= 0
        cols["rentner"][i] = alter >= 66
        cols["jahr_renteneintr"][i] = date.year - alter + (65 if alter >= 66 else 67)
        cols["monat_renteneintr"][i] = 1
        cols["mietstufe"][i] = 3
        cols["steuerklasse"][i] = 4 if ehe >= 0 else 1
        cols["alleinerz"][i] = has_kids and not partnered
        cols["ges_pflegev_hat_kinder"][i] = has_kids
        cols["wohnfläche_hh"][i] = 70.0
        cols["bruttokaltmiete_m_hh"][i] = 520.0
        cols["heizkosten_m_hh"][i] = 70.0
        wage = [0.0, 450.0, 1300.0, 2600.0, 5200.0][(i + variant) % 5] if alter >= 18 else 0.0
        cols["bruttolohn_m"][i] = wage if alter < 66 else 0.0
        cols["bruttolohn_vorj_m"][i] = cols["bruttolohn_m"][i]
        cols["arbeitsstunden_w"][i] = 38.0 if cols["bruttolohn_m"][i] > 0 else 0.0
        cols["entgeltp_west"][i] = float(max(0, alter - 20))
        cols["grundr_zeiten"][i] = max(0, alter - 20) * 12
        cols["grundr_bew_zeiten"][i] = max(0, alter - 20) * 12
        cols["grundr_entgeltp"][i] = float(max(0, alter - 20)) * 0.6
        cols["m_pflichtbeitrag"][i] = float(max(0, alter - 20) * 12)
        cols["vermögen_bedürft"][i] = [0.0, 3000.0, 20000.0][(i + variant) % 3]
        cols["eigenbedarf_gedeckt"][i] = False
    df = pd.DataFrame(cols)
    for c, t in TYPES_INPUT_VARIABLES.items():
        df[c] = df[c].astype("int64" if t is int else "float64" if t is float else "bool")
    return df


def exhaustive_shard(desc):
    import datetime

    sh = core.Shard()
    known = core.load_known(PROP)
    date = datetime.date.fromisoformat(desc["date"])
    for si in desc["shapes"]:
        df = shape_df(SHAPES[si], date, desc.get("variant", 0))
        n = len(df)
        for perm in itertools.permutations(range(n)):
            perm = list(perm)
            sh.evaluations += 1
            fails = check(df, date, perm, "range", 0)
            if nontrivial(df, perm):
                sh.nontrivial.add(core.digest([si, desc["date"], perm]))
            for f in fails:
                if f.key in known:
                    sh.known_seen[f.key] += 1
                elif not any(g.key == f.key for g in sh.failures):
                    f.case = popcheck.payload(df, date, perm=perm, label="range", lab_seed=0)
                    sh.failures.append(f)
    sh.extra["exhaustive_shapes"] = len(desc["shapes"])
    return sh


def large_shard(desc):
    """Large-table stratum: a generated population replicated to > 1000 rows (fresh unsorted ids per
    copy), simulated in two row orders.  Reaches code paths that depend on the table size."""
    import datetime

    from .. import dates as D

    sh = core.Shard()
    known = core.load_known(PROP)
    date = datetime.date.fromisoformat(desc["date"])

    def oracle(pop):
        n = len(pop.df)
        k = -(-desc["rows"] // n)
        big = popgen.replicate(pop.df, k, seed=desc["seed"] % 2**31)
        rng = np.random.RandomState(desc["seed"] % 2**31)
        perm = [int(i) for i in rng.permutation(len(big))]
        fails = check(big, date, perm, "strings", 1)
        sh.nontrivial.add("large|" + core.digest([desc["date"], big["p_id"].tolist()[:50], perm[:50]]))
        sh.classes["large-table(>1000 rows)"] += 1
        sh.sample({"date": desc["date"], "rows": int(len(big)), "copies": int(k), "base_population": popgen.brief(pop.df, max_rows=4)}, limit=1)
        for f in fails:
            if f.key not in known:
                f.case = popcheck.payload(big, date, perm=perm, label="strings", lab_seed=1)
        return fails

    # households with children / partners / own-needs children: the interesting pointers and units
    archs = ["couple_kids", "single_parent", "patchwork", "adult_child", "three_gen", "teen_parent", "child_with_partner"]
    core.explore(popgen.populations(date, mode="branch", max_households=3, archetypes=archs), oracle, n=desc["n"],
                 seed=D.sub_seed(desc["seed"], PROP, "large", desc["date"]), shard=sh, known=known, shrink=False)
    return sh


def run(tier, seed, t0):
    extra = None
    if tier == "thorough":
        from .. import dates as D

        days = [s[0].isoformat() for s in D.pick(D.strata(), 8, seed, PROP, "exh")]
        descs = [{"date": d, "shapes": [i], "variant": k}
                 for k, d in enumerate(days) for i in range(len(SHAPES))]
        extra = [("vf.checks.c01", "exhaustive_shard", descs)]
        big_days = [s[0].isoformat() for s in D.pick(D.strata(), 16, seed, PROP, "large")]
        extra.append(("vf.checks.c01", "large_shard", [{"date": d, "rows": 1100, "n": 3, "seed": D.sub_seed(seed, "large", d)} for d in big_days]))
    else:
        from .. import dates as D

        days = [s[0].isoformat() for s in D.pick(D.strata(), 1, seed, PROP, "exh")]
        descs = [{"date": days[0], "shapes": [i], "variant": seed % 5} for i in range(len(SHAPES))]
        extra = [("vf.checks.c01", "exhaustive_shard", descs)]
        big_days = [s[0].isoformat() for s in D.pick(D.strata(), 4, seed, PROP, "large")]
        extra.append(("vf.checks.c01", "large_shard", [{"date": d, "rows": 1100, "n": 2, "seed": D.sub_seed(seed, "large", d)} for d in big_days]))
    return popcheck.run(__name__, tier, seed, t0, extra_descs=extra)


def replay(case):
    df, date = popcheck.unpack(case)
    return check(df, date, case["perm"], case.get("label", "range"), case.get("lab_seed", 0), case.get("opts"))
