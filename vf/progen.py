"""Grammar for scalar policy functions in GETTSIM's documented restricted style (C09).

The generator is driven by an abstract chooser so that the same grammar serves Hypothesis
(`HypChooser(draw)`) and Atheris (`BytesChooser(FuzzedDataProvider)`).

Strata (tagged on the program):
  core         if/elif/else with one assignment / augmented assignment / return per branch, nested
               ifs, else-less assignment, conditional expressions, and/or/not over boolean operands,
               comparisons, arithmetic, unary minus, two-argument min/max
  augassign-no-else   `if c: x += v` without else                      (known finding F6)
  literal-reduction   sum/min/max/any/all of a list / tuple literal     (known finding F7)
  mixed        if/else bodies that assign with different operators (fixed: translated correctly)
  outside      constructs outside the style: two statements in a branch, return without else,
               three-argument max, branches assigning different names -> must be loud
"""
from __future__ import annotations

NUM_ARGS = ["a", "b", "c"]
BOOL_ARGS = ["p", "q"]
CONSTS = [0, 1, 2, 3, 5, 10, 0.5, 2.5, 100, -1]
CMP = ["<", "<=", ">", ">=", "==", "!="]


class HypChooser:
    def __init__(self, draw):
        from hypothesis import strategies as st

        self.draw, self.st = draw, st

    def choice(self, seq):
        return self.draw(self.st.sampled_from(list(seq)))

    def integer(self, lo, hi):
        return self.draw(self.st.integers(lo, hi))


class BytesChooser:
    def __init__(self, fdp):
        self.fdp = fdp

    def choice(self, seq):
        seq = list(seq)
        return seq[self.fdp.ConsumeIntInRange(0, len(seq) - 1)]

    def integer(self, lo, hi):
        return self.fdp.ConsumeIntInRange(lo, hi)


class Gen:
    def __init__(self, ch, strata):
        self.ch = ch
        self.strata = set(strata)
        self.tags = set()
        self.nums = list(NUM_ARGS)  # numeric names defined so far
        self.counter = 0

    # ---- expressions
    def num(self, depth):
        opts = ["arg", "const"]
        if depth > 0:
            opts += ["bin", "bin", "neg", "min2", "ifexp"]
            if "literal-reduction" in self.strata:
                opts += ["redlit"]
        k = self.ch.choice(opts)
        if k == "arg":
            return self.ch.choice(self.nums)
        if k == "const":
            return repr(self.ch.choice(CONSTS))
        if k == "bin":
            op = self.ch.choice(["+", "-", "*"])
            return f"({self.num(depth - 1)} {op} {self.num(depth - 1)})"
        if k == "neg":
            return f"(-{self.num(depth - 1)})"
        if k == "min2":
            return f"{self.ch.choice(['min', 'max'])}({self.num(depth - 1)}, {self.num(depth - 1)})"
        if k == "ifexp":
            self.tags.add("ifexp")
            return f"({self.num(depth - 1)} if {self.boolean(depth - 1)} else {self.num(depth - 1)})"
        self.tags.add("literal-reduction")
        f = self.ch.choice(["sum", "min", "max"])
        br = self.ch.choice(["[]", "()"])
        inner = f"{self.num(depth - 1)}, {self.num(depth - 1)}"
        return f"{f}({br[0]}{inner}{br[1]})"

    def boolean(self, depth):
        opts = ["cmp", "cmp", "arg"]
        if depth > 0:
            opts += ["and", "or", "not"]
            if "literal-reduction" in self.strata:
                opts += ["redlit"]
            if "outside" in self.strata:
                opts += ["chain"]
        k = self.ch.choice(opts)
        if k == "arg":
            return self.ch.choice(BOOL_ARGS)
        if k == "cmp":
            return f"({self.num(max(depth - 1, 0))} {self.ch.choice(CMP)} {self.num(max(depth - 1, 0))})"
        if k in ("and", "or"):
            self.tags.add("boolop")
            return f"({self.boolean(depth - 1)} {k} {self.boolean(depth - 1)})"
        if k == "not":
            self.tags.add("not")
            return f"(not {self.boolean(depth - 1)})"
        if k == "chain":
            self.tags.add("chained-comparison")
            return f"({self.num(0)} < {self.num(0)} <= {self.num(0)})"
        self.tags.add("literal-reduction")
        f = self.ch.choice(["any", "all"])
        return f"{f}(({self.boolean(depth - 1)}, {self.boolean(depth - 1)}))"

    # ---- statements
    def fresh(self):
        self.counter += 1
        return f"v{self.counter}"

    def branch_assign(self, name, op, depth):
        return f"{name} {op} {self.num(depth)}"

    def if_stmt(self, name, indent, depth, nest):
        """if/elif/else that sets `name` (already defined) in every branch."""
        pad = " " * indent
        kinds = ["assign", "assign", "aug"]
        if "mixed" in self.strata:
            kinds.append("mixed")
        kind = self.ch.choice(kinds)
        ops = {"assign": ["="], "aug": [self.ch.choice(["+=", "-=", "*="])], "mixed": ["=", "+=", "-="]}[kind]
        if kind == "mixed":
            self.tags.add("mixed")
        n_elif = self.ch.integer(0, 2)
        lines = []
        for i in range(n_elif + 1):
            kw = "if" if i == 0 else "elif"
            lines.append(f"{pad}{kw} {self.boolean(depth)}:")
            if nest > 0 and self.ch.integer(0, 3) == 0:
                self.tags.add("nested-if")
                lines += self.if_stmt(name, indent + 4, depth, nest - 1)
            else:
                lines.append(f"{pad}    {self.branch_assign(name, self.ch.choice(ops), depth)}")
        lines.append(f"{pad}else:")
        lines.append(f"{pad}    {self.branch_assign(name, self.ch.choice(ops), depth)}")
        self.tags.add("if-else")
        return lines

    def body(self):
        depth = self.ch.integer(1, 2)
        lines = []
        n_stmt = self.ch.integer(1, 4)
        for _ in range(n_stmt):
            opts = ["assign", "if", "if", "if_noelse_assign"]
            if "augassign-no-else" in self.strata:
                opts.append("if_noelse_aug")
            if "outside" in self.strata:
                opts += ["two_stmts", "diff_names", "max3", "return_no_else"]
            k = self.ch.choice(opts)
            if k == "assign":
                name = self.fresh()
                lines.append(f"    {name} = {self.num(depth)}")
                self.nums.append(name)
            elif k == "if":
                name = self.fresh()
                lines.append(f"    {name} = {self.num(0)}")
                self.nums.append(name)
                lines += self.if_stmt(name, 4, depth, 1)
            elif k == "if_noelse_assign":
                name = self.fresh()
                lines.append(f"    {name} = {self.num(0)}")
                self.nums.append(name)
                lines.append(f"    if {self.boolean(depth)}:")
                lines.append(f"        {name} = {self.num(depth)}")
                self.tags.add("if-no-else-assign")
            elif k == "if_noelse_aug":
                name = self.fresh()
                lines.append(f"    {name} = {self.num(0)}")
                self.nums.append(name)
                lines.append(f"    if {self.boolean(depth)}:")
                lines.append(f"        {name} {self.ch.choice(['+=', '-=', '*='])} {self.num(depth)}")
                self.tags.add("augassign-no-else")
            elif k == "two_stmts":
                name, other = self.fresh(), self.fresh()
                lines.append(f"    {name} = {self.num(0)}")
                lines.append(f"    {other} = {self.num(0)}")
                self.nums += [name, other]
                lines.append(f"    if {self.boolean(depth)}:")
                lines.append(f"        {name} = {self.num(depth)}")
                lines.append(f"        {other} = {self.num(depth)}")
                lines.append("    else:")
                lines.append(f"        {name} = {self.num(depth)}")
                self.tags.add("outside:two-statements")
            elif k == "diff_names":
                name, other = self.fresh(), self.fresh()
                lines.append(f"    {name} = {self.num(0)}")
                lines.append(f"    {other} = {self.num(0)}")
                self.nums += [name, other]
                lines.append(f"    if {self.boolean(depth)}:")
                lines.append(f"        {name} = {self.num(depth)}")
                lines.append("    else:")
                lines.append(f"        {other} = {self.num(depth)}")
                self.tags.add("outside:different-names")
            elif k == "max3":
                name = self.fresh()
                lines.append(f"    {name} = max({self.num(0)}, {self.num(0)}, {self.num(0)})")
                self.nums.append(name)
                self.tags.add("outside:three-argument-max")
            elif k == "return_no_else":
                lines.append(f"    if {self.boolean(depth)}:")
                lines.append(f"        return {self.num(depth)}")
                self.tags.add("outside:return-without-else")
        if self.ch.integer(0, 2) == 0:
            lines.append(f"    if {self.boolean(depth)}:")
            lines.append(f"        return {self.num(depth)}")
            lines.append("    else:")
            lines.append(f"        return {self.num(depth)}")
            self.tags.add("if-else-return")
        else:
            lines.append(f"    return {self.num(depth)}")
        return lines


def program(ch, strata, name="prog"):
    g = Gen(ch, strata)
    body = g.body()
    src = f"def {name}({', '.join(NUM_ARGS + BOOL_ARGS)}):\n" + "\n".join(body) + "\n"
    return src, sorted(g.tags)


def constants_of(src):
    import ast

    out = set()
    for node in ast.walk(ast.parse(src)):
        if isinstance(node, ast.Constant) and isinstance(node.value, (int, float)) and not isinstance(node.value, bool):
            out.add(float(node.value))
    return sorted(out)
