"""History-free execution of one API call (C14's oracle).

    python -m vf.fresh_worker  < descriptor.json  > result.json

The process does nothing but: set up the environment for the date, apply the listed user-side
reforms to the returned params, build the data object and call compute_taxes_and_transfers once.
It prints a canonical digest of the result (or of the exception type).
"""
from __future__ import annotations

import json
import sys
import warnings


def apply_reform(params, group, eps):
    """User-side edit of the params dict returned by set_up_policy_environment (in place)."""
    import numpy as np

    def walk(obj, path):
        if isinstance(obj, dict):
            for k in list(obj):
                if path == () and k in ("rounding", "datum"):
                    continue
                v = obj[k]
                if isinstance(v, (dict, list)):
                    walk(v, (*path, k))
                elif isinstance(v, np.ndarray):
                    if v.dtype.kind in "fiu":
                        obj[k] = v * (1 + eps)
                elif isinstance(v, bool):
                    continue
                elif isinstance(v, (int, float, np.integer, np.floating)) and np.isfinite(v):
                    obj[k] = v * (1 + eps)
        elif isinstance(obj, list):
            for i, v in enumerate(obj):
                if isinstance(v, (dict, list)):
                    walk(v, (*path, i))
                elif isinstance(v, (int, float)) and not isinstance(v, bool):
                    obj[i] = v * (1 + eps)

    walk(params[group], ())


def plus_one(f):
    """A user function with the signature and metadata of f (functools.wraps) returning f(...) + 1."""
    import functools

    @functools.wraps(f)
    def user_function(*args, **kwargs):
        return f(*args, **kwargs) + 1.0

    return user_function


def build_data(plain, as_dict, variant):
    from vf import popgen

    df = popgen.df_from_plain(plain)
    if variant is not None:
        import numpy as np

        from _gettsim.config import TYPES_INPUT_VARIABLES

        rng = np.random.RandomState(variant)
        for c, t in TYPES_INPUT_VARIABLES.items():
            if c in df.columns and rng.randint(0, 3) == 0:
                if t is int:
                    df[c] = df[c].astype("float64")
                elif t is bool:
                    df[c] = df[c].astype("int64")
    if as_dict:
        return {c: df[c] for c in df.columns}
    return df


def call(desc, env=None):
    """Execute the described call; env=(params, functions) if given (in-process use)."""
    from _gettsim.interface import compute_taxes_and_transfers
    from vf import compare

    if env is None:
        from _gettsim.policy_environment import set_up_policy_environment

        params, functions = set_up_policy_environment(desc["date"])
        for g, eps in desc["reforms"]:
            apply_reform(params, g, eps)
        for name in desc.get("wraps", []):
            functions[name] = plus_one(functions[name])
    else:
        params, functions = env
    data = build_data(desc["data"], desc["as_dict"], desc["variant"])
    try:
        with warnings.catch_warnings():
            warnings.simplefilter("ignore")
            res = compute_taxes_and_transfers(data=data, params=params, functions=functions,
                                              targets=desc["targets"], rounding=desc["rounding"],
                                              aggregate_by_group_specs=desc.get("group_specs"),
                                              aggregate_by_p_id_specs=desc.get("p_id_specs"))
    except Exception as e:  # noqa: BLE001
        return f"EXC:{type(e).__name__}", data
    return compare.frame_digest(res), data


def main():
    import os

    os.environ.setdefault("PYTHONHASHSEED", "0")
    desc = json.load(sys.stdin)
    digest, _ = call(desc)
    json.dump({"digest": digest}, sys.stdout)


if __name__ == "__main__":
    main()
